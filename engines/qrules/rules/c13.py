"""C13: signal callbacks are wired to the right signal (structural clauses only)."""
import re
from facts import walk, short, pp
import hirutil as H
import labelflow as LF
import core
import rules.c02 as c02

LEVEL = 'other'
TECHNIQUE = ('decision-arm classification of the on<Signal> dispatch (only a uniquely resolved signal builds a callback, every other '
             'outcome pushes an error), structural reading of the overload-collapsing loop, dominance of the parameter verification '
             'over callback construction, positional provenance of parameters from declaration to lambda and forwarded call, '
             'append-only/ordered statement pipeline from walker to printed body, all-or-error shape of the by-name overload lookup; over typed HIR')
LEVEL_TEXT = ('That emitting the signal performs the same calls with the same values as the handler prescribes is a property of executions '
              'of the generated C++ for all handler bodies and argument values and is NOT decided. Decided are the wiring clauses of the '
              'statement whose truth is in the shape of the generator: the on<Name> -> signal name mapping strips exactly the prefix it '
              'tests; a callback is built only for a uniquely resolved method of kind Signal of the object\'s class, every other outcome is '
              'an error diagnostic; default-argument variants collapse to the longest variant and true overloads are rejected; parameter '
              'count and assignability are verified, zipped from the first signal argument, before the callback exists; the k-th declared '
              'parameter is the k-th local, the k-th lambda parameter and the k-th forwarded argument; one connect per callback, on the '
              'declaring object, with the verified signal; statements are appended in walk order and printed in stored order.')
LEVEL_NOTE = ('Not decided: value-level equivalence of handler bodies, order of side effects inside one expression, C++ overload '
              'resolution of QOverload<..>::of. Shared obligations: C05 R5.6 (parameter assignability direction, count), C16 R16.4/R16.5 '
              '(names from the generator, per-callback emitter loops), C07 (prefix guard of the name slice).')
DESIGN_REF = 'DESIGN.md section 10, C13'


def arm_variants(pat):
    return pp(pat, maxlen=80)


def run(ck):
    if getattr(ck, 'depth', 0) >= 2:
        return      # a shared run of a shared run: nothing of it is selected, and mutual sharing must end somewhere
    _run(ck)
    _shares(ck)


def _shares(ck):
    L = ck.facts.lib
    ck.rule('R13.8', 'the by-name method lookup hands out every overload of a name, or an error')
    overload_table(ck, L)
    import core as _core
    import rules.c04 as c04
    s4 = _core.Shared(ck, 'R13.9', lambda r, k: r == 'R4.6' or (r == 'R4.4' and k in ('only-error-free-builds-continue', 'guard-tests-the-build-diagnostics')), 'C04:',
                      ' [a handler is rejected by an error diagnostic: the document is refused only if has_error() sees it]')
    ck.rule('R13.9', 'a rejected handler stops the document: the error gate and the header write (shared with C04, C15)')
    c04.run(s4)
    import rules.c15 as c15
    s15 = _core.Shared(ck, 'R13.9', lambda r, k: (r == 'R15.4' and k.endswith('|skipped-only-if-same-bytes')) or (r == 'R15.5' and k in ('header-path-gets-header', 'both-outputs-written')), 'C15:',
                       ' [handlers live in the support header only: a header that is not rewritten keeps the old connections]')
    c15.run(s15)
    ck.floor('R13.9', s4.count + s15.count, 7, 'shared C04 / C15 obligations')
    # "with the same argument values as the handler's statements prescribe": a constant argument is folded before it is emitted and a string
    # argument is spelled as a C++ literal; both are the same code as in property bindings
    import rules.c01 as c01
    ck.rule('R13.10', 'argument values: constant folding denotes the source operators, string literals denote the source string (shared with C01, C16)')
    ck.explanation += (' R13.10 "the same argument values": the constant folding table of C01 R1.2 and the C++ string escaper table of C16 R16.1 are re-filed here, since a '
                       'constant or string argument of a handler statement goes through exactly that code.')
    s1 = _core.Shared(ck, 'R13.10', lambda r, k: r == 'R1.2', 'C01:', ' [a constant argument of a handler statement is folded here before it is emitted]')
    c01.run(s1)
    import rules.c16 as c16
    s16 = _core.Shared(ck, 'R13.10', lambda r, k: r == 'R16.1' and (k.startswith('cxx-escaper-table') or k.startswith('string-constant-arm')), 'C16:',
                       ' [a string argument of a handler statement is spelled by this table]')
    c16.run(s16)
    ck.floor('R13.10', s1.count + s16.count, 50, 'shared C01 R1.2 / C16 R16.1 obligations')


def _run(ck):
    F = ck.facts
    L = F.lib
    ck.explanation = (
        'R13.1 callback_to_signal_name: Some only under starts_with("on") && next char upper-case, result = uncapitalised remainder after '
        'exactly that prefix. R13.2 build_properties_callbacks: property lookup first; signal lookup on the same class by the mapped name; '
        'arms: Ok(Some(desc)) if kind == Signal -> CallbackCode::build, every other arm pushes Diagnostic::error; overloads pass through '
        'uniquify_methods; nested/attached/gadget callbacks are rejected. R13.3 uniquify_methods: candidates sorted by descending argument '
        'count and consumed from the shortest; a longer one replaces the known one only if kind and return type are equal and its argument '
        'types start with the known ones; anything else returns None. R13.4 CallbackCode::build: map values rejected; '
        'verify_callback_parameter_type(&desc, &code, ..) guards Some(CallbackCode{desc, code}) for the same desc/code. R13.5 parameters: '
        'declared in order before the body, each becoming the next local (asserted), all-or-nothing; verification zips signal argument '
        'types with locals[..parameter_count] from index 0; CxxCallback takes locals[0..parameter_count] in order; the lambda parameter '
        'list and the forwarded argument list are the same vector in the same order. R13.6 connect: one template per callback, sender = '
        'the object paired with this code map (same flat order on both sides), signal = format_signal_pointer(desc). R13.7 order: '
        'push_statement appends; the only insertion into statements is the observe statement of the binding analysis, which callbacks '
        'never run; walk_stmt_nodes and the translator iterate forwards.')
    for rid, text in (('R13.1', 'on<Name> maps to the signal name by stripping exactly the tested prefix'),
                      ('R13.2', 'only a uniquely resolved signal of the object\'s class gets a handler; everything else is an error'),
                      ('R13.3', 'default-argument variants collapse to the longest; true overloads are rejected'),
                      ('R13.4', 'parameter verification guards callback construction'),
                      ('R13.5', 'the k-th declared parameter is bound to the k-th signal argument'),
                      ('R13.6', 'one connect per callback, on the declaring object, with the verified signal'),
                      ('R13.7', 'statements run in source order')):
        ck.rule(rid, text)

    # ---- R13.1 -------------------------------------------------------------------------------------------
    cn = L.fn('qtname::callback_to_signal_name')
    if cn is None:
        ck.floor('R13.1', 0, 1, 'fn callback_to_signal_name')
    else:
        ck.analysed(cn['path'])
        iff = next((n for n in walk(cn['body']) if n.get('k') == 'If'), None)
        ok = False
        why = 'no if found'
        sp = next((c for c in H.calls_in(cn['body']) if c.get('m') == 'strip_prefix' and isinstance(H.lit_value(c['args'][0]), str)), None)
        if sp is not None and iff is not None and 'els' in iff:
            # let rest = name.strip_prefix("on")?; if rest.starts_with(upper) { Some(uncapitalised(rest)) } else { None }
            lit = H.lit_value(sp['args'][0])
            rb = next((b for b in H.binding_sites(cn).values() if b['kind'] in ('let', 'letcond', 'arm') and any(x is sp for x in walk(b['node'].get('init') or b['node'].get('e') or {'k': 'x'}))), None)
            sw = [c for c in H.calls_in(iff['c']) if c.get('m') == 'starts_with']
            somes = [v for v in H.value_exprs(iff['then']) if v.get('k') == 'Call' and (v.get('def') or '').endswith('Option::Some')]
            nones = [v for v in H.value_exprs(iff['els']) if pp(v) == 'None']
            on_rest = rb is not None and len(sw) == 1 and (H.root_local(sw[0]['recv']) or {}).get('hid') == rb['bind']['hid'] and 'is_ascii_uppercase' in pp(sw[0]['args'][0], maxlen=80)
            unc = bool(somes) and any(H.is_call_to(c, 'to_ascii_uncapitalized') and (H.root_local(c['args'][0]) or {}).get('hid') == (rb or {'bind': {}})['bind'].get('hid') for c in H.calls_in(somes[0]))
            ok = lit == 'on' and on_rest and unc and bool(nones) and not [n for n in walk(cn['body']) if n.get('k') == 'Index']
            why = 'rest = name.strip_prefix(%r)?; rest starts upper-case => Some(uncapitalised(rest)), else None' % lit
        elif iff is not None and 'els' in iff:
            sw = [c for c in H.calls_in(iff['c']) if c.get('m') == 'starts_with']
            lit = next((H.lit_value(c['args'][0]) for c in sw if isinstance(H.lit_value(c['args'][0]), str)), None)
            slices = [n for n in walk(cn['body']) if n.get('k') == 'Index']
            starts = set()
            for s_ in slices:
                txt = pp(s_['i'], maxlen=40)
                mm = re.search(r'(\d+)\s*\.\.|start:\s*(\d+)', txt)
                if mm:
                    starts.add(int(mm.group(1) or mm.group(2)))
            somes = [v for v in H.value_exprs(iff['then']) if v.get('k') == 'Call' and (v.get('def') or '').endswith('Option::Some')]
            nones = [v for v in H.value_exprs(iff['els']) if pp(v) == 'None']
            unc = bool(somes) and any(H.is_call_to(c, 'to_ascii_uncapitalized') for c in H.calls_in(somes[0]))
            upper = any('is_ascii_uppercase' in pp(c['args'][0], maxlen=80) for c in sw)
            ok = lit == 'on' and starts == {len(lit)} and unc and upper and len(sw) == 2 and bool(nones) and iff['c'].get('k') == 'Binary' and iff['c'].get('op') == 'And'
            why = 'starts_with(%r) && name[%s..] starts upper-case => Some(uncapitalised(name[%s..])), else None' % (lit, sorted(starts), sorted(starts))
        ck.ob('R13.1', 'prefix-stripped-is-prefix-tested', ok, L.loc(cn['body']), why)

    # ---- R13.2 -------------------------------------------------------------------------------------------------
    bp = L.fn('uigen::objcode::build_properties_callbacks')
    if bp is None:
        ck.floor('R13.2', 0, 1, 'fn build_properties_callbacks')
    else:
        ck.analysed(bp['path'])
        bs = H.binding_sites(bp)
        cb_let = next((b for b in bs.values() if b['kind'] == 'let' and any(H.is_call_to(c, 'callback_to_signal_name') for c in H.calls_in(b['node'].get('init', {'k': 'x'})))), None)
        gp = next((c for c in H.calls_in(bp['body']) if c.get('m') == 'get_property'), None)
        gm = next((c for c in H.calls_in(bp['body']) if c.get('m') == 'get_public_method'), None)
        same_cls = gp is not None and gm is not None and (H.root_local(gp['recv']) or {}).get('hid') == (H.root_local(gm['recv']) or {}).get('hid') and \
            bs.get((H.root_local(gp['recv']) or {}).get('hid'), {}).get('kind') == 'param'
        ck.ob('R13.2', 'signal-looked-up-on-the-object-class', same_cls and cb_let is not None, L.loc(gm) if gm else L.loc(bp['body']),
              'cls.get_public_method(<mapped name>) on the class whose properties are looked up; the mapped name comes from callback_to_signal_name(<binding name>)')
        if gm is not None and cb_let is not None:
            arg_roots = {x.get('hid') for x in walk(gm['args'][0]) if x.get('k') == 'Path' and x.get('res') == 'local'}
            clo = next((a for a in H.ancestors(bp, gm) if a.get('k') == 'Closure'), None)
            ok = cb_let['bind']['hid'] in arg_roots
            if not ok and clo is not None:
                par = H.parents(bp).get(id(clo)) or {}
                ok = par.get('k') == 'MCall' and par.get('m') == 'and_then' and (H.root_local(par['recv']) or {}).get('hid') == cb_let['bind']['hid']
            ck.ob('R13.2', 'lookup-uses-the-mapped-name', ok, L.loc(gm), 'cb_name.as_ref().and_then(|n| cls.get_public_method(n))')
        # property first
        ok = gp is not None and gm is not None and H.source_before(gp, gm)
        ck.ob('R13.2', 'property-binding-has-precedence', ok, L.loc(gp) if gp else L.loc(bp['body']), 'a name that is a property is never treated as a handler')
        m = next((n for n in walk(bp['body']) if n.get('k') == 'Match' and any(H.is_call_to(c, 'uniquify_methods') or 'uniquify_methods' in pp(n['e'], maxlen=120) for c in [n])), None)
        if m is None:
            ck.ob('R13.2', 'classification-match', False, L.loc(bp['body']), 'match r.map(uniquify_methods) not found')
        else:
            builds = []
            n_arms = 0
            for arm in m['arms']:
                n_arms += 1
                pt = pp(arm['pat'], maxlen=80)
                g = pp(arm['guard'], maxlen=120) if 'guard' in arm else ''
                cb = [c for c in H.calls_in(arm['body']) if H.is_call_to(c, 'CallbackCode::build')]
                errs = [c for c in H.calls_in(arm['body']) if c.get('m') == 'push' and c['args'] and H.is_call_to(c['args'][0], 'Diagnostic::error')]
                if cb:
                    builds.append((arm, pt, g, cb[0]))
                    okg = re.match(r'^Ok\(Some\((\w+)\)\)$', pt) is not None and 'kind()' in g and 'MethodKind::Signal' in g and (' Eq ' in g or '==' in g)
                    dn = H.pat_bindings(arm['pat'])
                    okd = bool(dn) and (H.root_local(cb[0]['args'][1]) or {}).get('hid') == dn[0]['hid']
                    ck.ob('R13.2', 'handler-only-for-unique-signal', okg and okd, L.loc(arm), 'Ok(Some(desc)) if desc.kind() == MethodKind::Signal => CallbackCode::build(ctx, desc, ..)' if okg and okd else
                          'a callback is built under `%s%s`: a non-signal or unresolved method can get a handler' % (pt, ' if ' + g if g else ''), fn=bp['path'])
                else:
                    ck.ob('R13.2', 'rejected|%s' % pt, bool(errs), L.loc(arm), 'pushes Diagnostic::error' if errs else 'this outcome is dropped without a diagnostic', fn=bp['path'])
            ck.ob('R13.2', 'classification-arms', len(builds) == 1 and n_arms == 4, L.loc(m), '%d arms, %d building a callback' % (n_arms, len(builds)))
            ck.ob('R13.2', 'overloads-pass-through-uniquify', 'uniquify_methods' in pp(m['e'], maxlen=120), L.loc(m), pp(m['e'], maxlen=60))
        # callbacks are pushed only when built
        built = [a for a in walk(bp['body']) if a.get('k') == 'If' and a['c'].get('k') == 'LetCond' and any(H.is_call_to(c, 'CallbackCode::build') for c in H.calls_in(a['c']['e']))]
        cbind = {b['hid'] for a in built for b in H.pat_bindings(a['c']['pat'])}
        pushes = [c for c in H.calls_in(bp['body']) if c.get('m') == 'push' and c['args'] and 'CallbackCode' in (L.ty(c['args'][0]) or '')]
        ok = len(pushes) == 1 and len(built) == 1 and (H.root_local(pushes[0]['args'][0]) or {}).get('hid') in cbind and any(x is pushes[0] for x in walk(built[0]['then']))
        ck.ob('R13.2', 'stored-iff-built', ok, L.loc(pushes[0]) if pushes else L.loc(bp['body']), 'if let Some(c) = CallbackCode::build(..) { callbacks.push(c) }')
    bm = L.fn('uigen::objcode::build_properties_map')
    if bm is not None:
        lp = next((n for n in walk(bm['body']) if n.get('k') == 'For'), None)
        ok = lp is not None and 'callbacks' in pp(lp['iter']) and any(c.get('m') == 'push' and H.is_call_to(c['args'][0], 'Diagnostic::error') for c in H.calls_in(lp['body'])) and \
            not any(m.get('k') == 'MCall' and m.get('m') in LF.FILTERS for m in walk(lp['iter']))
        ck.ob('R13.2', 'nested-callbacks-rejected', ok, L.loc(lp) if lp else L.loc(bm['body']), 'every callback found in an attached/nested/gadget map is an error (no handler would be connected for it)')

    # ---- R13.3 uniquify_methods ----------------------------------------------------------------------------------------
    um = L.fn('uigen::objcode::uniquify_methods')
    if um is None:
        ck.floor('R13.3', 0, 1, 'fn uniquify_methods')
    else:
        ck.analysed(um['path'])
        m = next((n for n in walk(um['body']) if n.get('k') == 'Match'), None)
        arms = [(pp(a['pat'], maxlen=60), a) for a in (m['arms'] if m else [])]
        ck.ob('R13.3', 'two-plain-arms', len(arms) == 2 and not any('guard' in a for p, a in arms), L.loc(m) if m else L.loc(um['body']), 'arms: %s' % [p + (' if ..' if 'guard' in a else '') for p, a in arms])
        uq = next((a for p, a in arms if 'Unique' in p), None)
        ov = next((a for p, a in arms if 'Overloaded' in p), None)
        ok = uq is not None and [pp(v) for v in H.value_exprs(uq['body'])] == ['Some(%s)' % H.pat_bindings(uq['pat'])[0]['name']]
        ck.ob('R13.3', 'unique-taken-as-is', ok, L.loc(uq) if uq else L.loc(um['body']), 'MethodMatches::Unique(m) => Some(m)')
        if ov is not None:
            srt = next((c for c in H.calls_in(ov['body']) if c.get('m') in ('sort_by_key', 'sort_by', 'sort_unstable_by_key')), None)
            key = pp(srt['args'][0], maxlen=120) if srt else ''
            desc = srt is not None and 'arguments_len()' in key and ('Neg(' in key or re.search(r'-\s*\(', key) is not None or 'Reverse' in key)
            pops = [c for c in H.calls_in(ov['body']) if c.get('m') == 'pop']
            ck.ob('R13.3', 'consumed-from-fewest-arguments', bool(desc) and len(pops) == 2 and all(H.source_before(srt, p) for p in pops), L.loc(srt) if srt else L.loc(ov),
                  'sorted by descending argument count (%s), then popped from the end: shortest first' % key)
            loop = next((n for n in walk(ov['body']) if n.get('k') == 'Loop'), None)
            iff = next((n for n in walk(loop) if n.get('k') == 'If' and n['c'].get('k') != 'LetCond'), None) if loop else None
            ok = False
            why = 'loop/condition not found'
            if iff is not None:
                cj = []

                def flat(c):
                    c = H.strip_refs(c)
                    if c.get('k') == 'Binary' and c.get('op') == 'And':
                        flat(c['l'])
                        flat(c['r'])
                    else:
                        cj.append(c)
                flat(iff['c'])
                lb = H.pat_bindings(next(x for x in walk(loop) if x.get('k') == 'LetCond')['pat'])
                mvar = lb[0]['hid'] if lb else None
                kn = next((b['bind']['hid'] for b in H.binding_sites(um).values() if b['kind'] == 'let' and b['node'].get('init') is not None and
                           any(c.get('m') == 'pop' for c in H.calls_in(b['node']['init'])) and not any(x is b['node'] for x in walk(loop))), None)
                seen = set()
                for c in cj:
                    t = pp(c, maxlen=160)
                    if c.get('k') == 'Binary' and c.get('op') == 'Eq' and 'kind()' in t and t.count('kind()') == 2:
                        seen.add('kind')
                    elif c.get('k') == 'Binary' and c.get('op') == 'Eq' and t.count('return_type()') == 2:
                        seen.add('return')
                    elif c.get('k') == 'MCall' and c.get('m') == 'starts_with':
                        # longer.starts_with(known)
                        if (H.root_local(c['recv']) or {}).get('hid') == mvar and (H.root_local(c['args'][0]) or {}).get('hid') == kn and 'argument_types()' in pp(c['recv']) and 'argument_types()' in pp(c['args'][0]):
                            seen.add('prefix')
                        else:
                            seen.add('prefix-wrong-direction')
                    else:
                        seen.add('other:' + t[:40])
                asg = [a for a in walk(iff['then']) if a.get('k') == 'Assign' and (H.root_local(a['l']) or {}).get('hid') == kn and (H.root_local(a['r']) or {}).get('hid') == mvar]
                rets = [r for r in walk(iff.get('els', {'k': 'x'})) if r.get('k') == 'Ret' and pp(r.get('e', {})) == 'None']
                ok = seen == {'kind', 'return', 'prefix'} and len(asg) == 1 and len(rets) == 1
                why = 'a longer variant replaces the known one iff same kind, same return type and its argument types start with the known ones (%s); otherwise return None' % sorted(seen)
            ck.ob('R13.3', 'collapse-only-default-argument-variants', ok, L.loc(iff) if iff else L.loc(ov), why, fn=um['path'])
            vals = list(H.value_exprs(ov['body']))
            kn2 = next((b['bind']['hid'] for b in H.binding_sites(um).values() if b['kind'] == 'let' and b['node'].get('init') is not None and
                        any(c.get('m') == 'pop' for c in H.calls_in(b['node']['init'])) and loop is not None and not any(x is b['node'] for x in walk(loop))), None)
            ok = len(vals) == 1 and vals[0].get('k') == 'Call' and (vals[0].get('def') or '').endswith('Option::Some') and (H.root_local(vals[0]['args'][0]) or {}).get('hid') == kn2 and kn2 is not None
            ck.ob('R13.3', 'longest-variant-wins', ok, L.loc(ov), 'result: %s' % [pp(v) for v in vals])

    # ---- R13.4 CallbackCode::build ----------------------------------------------------------------------------------------------
    cb = L.fn('uigen::objcode::CallbackCode::build')
    if cb is None:
        ck.floor('R13.4', 0, 1, 'fn CallbackCode::build')
    else:
        ck.analysed(cb['path'])
        st = next((n for n in walk(cb['body']) if n.get('k') == 'Struct' and (n.get('def') or '').endswith('CallbackCode')), None)
        v = next((c for c in H.calls_in(cb['body']) if H.is_call_to(c, 'verify_callback_parameter_type')), None)
        ok = st is not None and v is not None
        if ok:
            g = next((n for n in walk(cb['body']) if n.get('k') == 'If' and any(x is v for x in walk(n['c']))), None)
            neg = g is not None and g['c'].get('k') == 'Unary' and g['c'].get('op') == 'Not' and any(r.get('k') == 'Ret' and pp(r.get('e', {})) == 'None' for r in walk(g['then']))
            f = {x['f']: x['e'] for x in st['fields']}
            same = (H.root_local(f.get('desc', {})) or {}).get('hid') == (H.root_local(v['args'][0]) or {}).get('hid') and \
                (H.root_local(f.get('code', {})) or {}).get('hid') == (H.root_local(v['args'][1]) or {}).get('hid')
            ok = neg and same and H.lexically_precedes_dominating(cb, g, st)
        ck.ob('R13.4', 'verified-before-constructed', ok, L.loc(st) if st else L.loc(cb['body']), 'if !verify_callback_parameter_type(&desc, &code, ..) { return None } dominates CallbackCode { desc, code }')
        bc = next((c for c in H.calls_in(cb['body']) if H.is_call_to(c, 'tir::builder::build_callback', 'tir::build_callback')), None)
        ok = bc is not None and H.parents(cb).get(id(bc), {}).get('k') == 'Try'
        ck.ob('R13.4', 'body-built-as-callback', ok, L.loc(bc) if bc else L.loc(cb['body']), 'code = tir::build_callback(..)? (parameters allowed, no dependency scan)')
        # callbacks never run the binding dependency analysis (which inserts statements)
        users = sorted({short(f['path']) for f in L.fn_list for c in H.calls_in(f['body']) if H.is_call_to(c, 'analyze_code_property_dependency')})
        ck.ob('R13.7', 'callbacks-not-dependency-scanned', users == ['PropertyCodeKind::build'], '', 'analyze_code_property_dependency is called from %s only' % users)

    # ---- R13.5 parameters ------------------------------------------------------------------------------------------------------------
    wf = L.fn('typedexpr::walk_callback_function')
    if wf is None:
        ck.floor('R13.5', 0, 1, 'fn walk_callback_function')
    else:
        ck.analysed(wf['path'])
        lp = next((n for n in walk(wf['body']) if n.get('k') == 'For' and 'parameters' in pp(n['iter'])), None)
        vp = next((c for c in H.calls_in(lp['body']) if c.get('m') == 'visit_function_parameter'), None) if lp else None
        body = next((n for n in walk(wf['body']) if n.get('k') == 'Match' and 'body' in pp(n['e'])), None)
        ok = lp is not None and vp is not None and body is not None and H.source_before(lp, body) and \
            not any(m.get('k') == 'MCall' and m.get('m') in LF.FILTERS | {'rev'} for m in walk(lp['iter'])) and not any(x.get('k') in ('Break', 'Continue') for x in walk(lp['body']))
        ck.ob('R13.5', 'parameters-declared-in-order-before-body', ok, L.loc(lp) if lp else L.loc(wf['body']), 'for param in &func.parameters { visit_function_parameter(..) } precedes the body walk')
        g = next((n for n in walk(wf['body']) if n.get('k') == 'If' and 'parameters.len()' in pp(n['c']) and 'locals.len()' in pp(n['c'])), None)
        ok = g is not None and g['c'].get('op') == 'Ne' and any(r.get('k') == 'Ret' and pp(r.get('e', {})) == 'None' for r in walk(g['then'])) and body is not None and H.lexically_precedes_dominating(wf, g, body)
        ck.ob('R13.5', 'all-parameters-or-nothing', ok, L.loc(g) if g else L.loc(wf['body']), 'if locals.len() != func.parameters.len() { return None } before the body: a skipped parameter cannot shift the later ones')
    vfp = next((f for f in L.fn_list if f['name'] == 'visit_function_parameter' and 'CodeBuilder' in f['path']), None)
    if vfp is not None:
        ck.analysed(vfp['path'])
        has_assert = any(n.get('x') == 'assert_eq' or n.get('xi') == 'assert_eq' for n in walk(vfp['body']))
        inc = [n for n in walk(vfp['body']) if n.get('k') in ('Assign', 'AssignOp') and 'parameter_count' in pp(n['l']) and
               (H.lit_value(n['r']) == 1 if n['k'] == 'AssignOp' else re.sub(r'\s', '', pp(n['r'])).endswith('locals.len()'))]
        al = next((c for c in H.calls_in(vfp['body']) if c.get('m') == 'alloca'), None)
        ok = has_assert and len(inc) == 1 and al is not None and H.source_before(al, inc[0])
        ck.ob('R13.5', 'kth-parameter-is-kth-local', ok, L.loc(vfp['body']), 'assert_eq!(locals.len(), parameter_count); alloca; parameter_count = locals.len(): parameters are exactly the first locals, in declaration order')
    vc = L.fn('uigen::objcode::verify_callback_parameter_type')
    if vc is not None:
        ck.analysed(vc['path'])
        z = next((c for c in H.calls_in(vc['body']) if c.get('m') == 'zip'), None)
        ok = False
        if z is not None:
            chain = [m.get('m') for m in walk(z) if m.get('k') == 'MCall']
            rng = pp(z['args'][0], maxlen=100)
            ok = 'argument_types' in pp(z['recv']) and not any(m in LF.FILTERS | {'rev'} for m in chain) and re.search(r'locals\[\s*(\.\.|RangeTo)', rng.replace(' ', '')) is not None and 'parameter_count' in rng
        ck.ob('R13.5', 'verified-against-leading-arguments', ok, L.loc(z) if z else L.loc(vc['body']), 'desc.argument_types().iter().zip(&code.locals[..code.parameter_count]): both from index 0')
    import rules.c05 as c05
    s5 = core.Shared(ck, 'R13.5', lambda r, k: (r == 'R5.6' and k.startswith('callback-parameter')) or (r == 'R5.1' and k.startswith('is_concrete_assignable|')), 'C05:')
    c05.run(s5)
    ck.floor('R13.5', s5.count, 2 + 256, 'shared C05 obligations: callback-parameter rules and the is_concrete_assignable table the parameter test applies')
    ccb = next((f for f in L.fn_list if f['path'].endswith('uigen::binding::CxxCallback::build')), None)
    if ccb is None:
        ck.floor('R13.6', 0, 1, 'fn CxxCallback::build')
    else:
        ck.analysed(ccb['path'])
        st = next((n for n in walk(ccb['body']) if n.get('k') == 'Struct' and (n.get('def') or '').endswith('CxxCallback')), None)
        f = {x['f']: x['e'] for x in (st or {}).get('fields', [])}
        bs = H.binding_sites(ccb)

        def init_of(name):
            e = f.get(name)
            b = bs.get((H.root_local(e) or {}).get('hid')) if e is not None else None
            return b['node']['init'] if b is not None and b['kind'] == 'let' else e
        pi = init_of('parameters')
        chain = [m.get('m') for m in walk(pi) if m.get('k') == 'MCall'] if pi else []
        t = re.sub(r'\s', '', pp(pi, maxlen=300)) if pi else ''
        ok = pi is not None and ('code.locals[0..code.parameter_count]' in t or re.search(r'code\.locals\[Range\{start:0,end:code\.parameter_count\}\]', t) is not None) and \
            not any(m in LF.FILTERS | {'rev'} for m in chain) and 'format_local_ref' in chain and 'collect' in chain
        ck.ob('R13.5', 'lambda-parameters-are-the-declared-locals-in-order', ok, L.loc(pi) if pi else L.loc(ccb['body']), 'code.locals[0..code.parameter_count].iter().map(|a| (type, local ref)).collect()')
        # ---- R13.6 ----
        si = init_of('sender')
        gi = init_of('signal')
        on = next((b for b in bs.values() if b['kind'] == 'param' and 'ObjectNode' in ccb['inputs'][b['index']]), None)
        cc = next((b for b in bs.values() if b['kind'] == 'param' and 'CallbackCode' in ccb['inputs'][b['index']]), None)
        ok = si is not None and on is not None and any(c.get('m') == 'format_named_object_ref' for c in H.calls_in(si)) and any(x.get('hid') == on['bind']['hid'] for x in walk(si) if x.get('k') == 'Path')
        ck.ob('R13.6', 'sender-is-the-declaring-object', ok, L.loc(si) if si else L.loc(ccb['body']), 'sender = format_named_object_ref(NamedObjectRef(obj_node.name()))')
        ok = gi is not None and cc is not None and H.is_call_to(H.strip_refs(gi), 'format_signal_pointer') and any(c.get('m') == 'desc' and (H.root_local(c['recv']) or {}).get('hid') == cc['bind']['hid'] for c in H.calls_in(gi))
        ck.ob('R13.6', 'signal-is-the-verified-descriptor', ok, L.loc(gi) if gi else L.loc(ccb['body']), 'signal = format_signal_pointer(callback_code.desc())')
        ci = init_of('callback_function_body')
        tr = next((c for c in H.calls_in(ccb['body']) if c.get('m') == 'translate'), None)
        ok = False
        if tr is not None and cc is not None:
            a1 = tr['args'][1]
            org = [a1]
            b1 = bs.get((H.root_local(a1) or {}).get('hid'))
            if b1 is not None and b1['kind'] == 'let' and b1['node'].get('init') is not None:
                org.append(b1['node']['init'])
            ok = any(c.get('m') == 'code' and (H.root_local(c['recv']) or {}).get('hid') == cc['bind']['hid'] for o in org for c in H.calls_in(o))
        ck.ob('R13.6', 'body-is-the-handler-code', bool(ok), L.loc(tr) if tr else L.loc(ccb['body']), 'the function body is the translation of callback_code.code()')
    ws = next((f for f in L.fn_list if f['path'].endswith('uigen::binding::CxxCallback::write_setup_function')), None)
    if ws is not None:
        ck.analysed(ws['path'])
        sites = [s for s in H.format_sites_in_fn(ws) if 'QObject::connect(' in H.fmt_text(s)]
        ok = len(sites) == 1 and not [a for a in H.ancestors(ws, sites[0]['node']) if a.get('k') in ('For', 'Loop', 'If', 'Match')]
        why = '%d connect template(s)' % len(sites)
        if ok:
            s = sites[0]
            t = H.fmt_text(s)
            mm = re.search(r'QObject::connect\(\{(\d)\}, \{(\d)\}, this->root_, \[this\]\(\{(\d)\}\) \{ this->\{(\d)\}\(\{(\d)\}\); \}\)', t)
            ok = mm is not None
            if ok:
                a = s['args']
                snd, sig, lam, fn_, fwd = (a[int(mm.group(i))][1] for i in range(1, 6))
                ok = pp(snd).endswith('self.sender') and pp(sig).endswith('self.signal') and any(c.get('m') == 'callback_function_name' for c in H.calls_in(fn_))
                lm = [m.get('m') for m in walk(lam) if m.get('k') == 'MCall']
                fm = [m.get('m') for m in walk(fwd) if m.get('k') == 'MCall']
                both = 'self.parameters' in pp(lam, maxlen=200) and 'self.parameters' in pp(fwd, maxlen=200) and not any(x in LF.FILTERS | {'rev'} for x in lm + fm)
                # lambda prints "{type} {name}", the call forwards the names: slots 0/1 of the same pairs
                lam_clo = next((m['args'][0] for m in walk(lam) if m.get('k') == 'MCall' and m.get('m') == 'map'), None)
                fwd_clo = next((m['args'][0] for m in walk(fwd) if m.get('k') == 'MCall' and m.get('m') == 'map'), None)
                names_ok = False
                if lam_clo is not None and fwd_clo is not None:
                    fb = H.pat_bindings(fwd_clo['params'][0])
                    rv = list(H.return_exprs(fwd_clo['body'], is_closure=True))
                    names_ok = len(fb) == 1 and len(rv) == 1 and (H.root_local(rv[0]) or {}).get('hid') == fb[0]['hid'] and pp(fwd_clo['params'][0]).replace(' ', '').startswith('(_,')
                ok = ok and both and names_ok
                why = 'connect(self.sender, self.signal, root, [this](<type name>..) { this->on..(<name>..); }) over the same parameter vector in the same order'
        ck.ob('R13.6', 'one-connect-forwarding-parameters-in-order', ok, L.loc(sites[0]['node']) if sites else L.loc(ws['body']), why, fn=ws['path'])
    wcf = next((f for f in L.fn_list if f['path'].endswith('uigen::binding::CxxCallback::write_callback_function')), None)
    if wcf is not None and ws is not None:
        s1 = next((s for s in H.format_sites_in_fn(wcf) if re.match(r'^void \{0\}\(\{1\}\)', H.fmt_text(s))), None)
        ok = s1 is not None and 'self.parameters' in pp(s1['args'][1][1], maxlen=200) and not any(m.get('m') in LF.FILTERS | {'rev'} for m in walk(s1['args'][1][1]) if m.get('k') == 'MCall')
        ck.ob('R13.6', 'definition-takes-the-same-parameters', ok, L.loc(s1['node']) if s1 else L.loc(wcf['body']), 'void on..(<type name>..) over self.parameters in order')
    ub = next((f for f in L.fn_list if f['path'].endswith('uigen::binding::UiSupportCode::build')), None)
    gb = L.fn('uigen::build')
    if ub is not None:
        lp = next((n for n in walk(ub['body']) if n.get('k') == 'For' and 'flat_iter()' in pp(n['iter'], maxlen=200)), None)
        it = pp(lp['iter'], maxlen=200) if lp else ''
        ok = lp is not None and re.sub(r'\s', '', it) == 'object_tree.flat_iter().zip(object_code_maps)'
        cbs = next((c for c in H.calls_in(lp['body']) if H.is_call_to(c, 'CxxCallback::build')), None) if lp else None
        if ok and cbs is not None:
            sp = {b['hid']: c02.slot_path(lp['pat'], b['hid']) for b in H.pat_bindings(lp['pat'])}
            oidx = next((i for i, t in enumerate(ccb['inputs']) if 'ObjectNode' in t), None) if ccb is not None else None
            ok = oidx is not None and sp.get((H.root_local(cbs['args'][oidx]) or {}).get('hid')) == (0,)
            cm_hid = next((h for h, p in sp.items() if p == (1,)), None)
            clo = next((a for a in H.ancestors(ub, cbs) if a.get('k') == 'Closure'), None)
            par = H.parents(ub).get(id(clo)) if clo is not None else None
            src = pp(par['recv'], maxlen=200) if par is not None and par.get('k') == 'MCall' else ''
            ok = ok and par is not None and (H.root_local(par['recv']) or {}).get('hid') == cm_hid and 'callbacks()' in src and not any(m.get('m') in LF.FILTERS for m in walk(par['recv']) if m.get('k') == 'MCall')
        ck.ob('R13.6', 'callbacks-of-an-object-connect-that-object', ok and cbs is not None, L.loc(lp) if lp else L.loc(ub['body']),
              'for (obj_node, code_map) in object_tree.flat_iter().zip(object_code_maps): every callback of code_map is built with obj_node')
    if gb is not None:
        ck.analysed(gb['path'])
        ocm = next((b for b in H.binding_sites(gb).values() if b['kind'] == 'let' and 'Vec<uigen::objcode::ObjectCodeMap' in (L.ty(b['bind']) or '')), None)
        src = ocm['node']['init'] if ocm else None
        # follow one helper call
        if src is not None:
            c0 = H.strip_refs(src)
            helper = L.fns.get(H.callee(c0) or '') if c0.get('k') == 'Call' else None
            if helper is not None:
                ck.analysed(helper['path'])
                vals = list(H.return_exprs(helper['body']))
                src = vals[0] if len(vals) == 1 else None
        chain = [m.get('m') for m in walk(src) if m.get('k') == 'MCall'] if src else []
        ok = src is not None and 'flat_iter' in chain and 'map' in chain and 'collect' in chain and not any(m in LF.FILTERS | {'rev', 'filter_map', 'flat_map'} for m in chain) and \
            any(H.is_call_to(c, 'ObjectCodeMap::build') for c in H.calls_in(src))
        tree_same = False
        if ok and ub is not None:
            # the tree handed to UiSupportCode::build is the tree the maps were built from
            ubc = next((c for c in H.calls_in(gb['body']) if H.is_call_to(c, 'UiSupportCode::build')), None)
            tree_local = next((x.get('hid') for x in walk(ocm['node']['init']) if x.get('k') == 'Path' and x.get('res') == 'local' and 'ObjectTree' in (L.ty(x) or '')), None)
            tree_same = ubc is not None and tree_local is not None and any((H.root_local(a) or {}).get('hid') == tree_local for a in ubc['args']) and any((H.root_local(a) or {}).get('hid') == ocm['bind']['hid'] for a in ubc['args'])
        ck.ob('R13.6', 'code-maps-in-flat-order', ok and tree_same, L.loc(ocm['node']) if ocm else L.loc(gb['body']),
              'object_code_maps = object_tree.flat_iter().map(ObjectCodeMap::build).collect() (%s): one map per object, in the order of the zip partner' % chain)
    import rules.c16 as c16
    s16 = core.Shared(ck, 'R13.6', lambda r, k: (r == 'R16.5' and ('callbacks' in k or k == 'callback-emits-setup-and-body')) or (r == 'R16.4' and 'CxxCallback' in k), 'C16:')
    c16.run(s16)
    ck.floor('R13.6', s16.count, 4, 'shared C16 obligations on callbacks')

    # ---- R13.7 order ------------------------------------------------------------------------------------------------------------------------
    ps = L.fn('tir::core::BasicBlock::push_statement')
    if ps is not None:
        ck.analysed(ps['path'])
        calls = [c for c in H.calls_in(ps['body']) if 'statements' in pp(c.get('recv', {}), maxlen=60)]
        ck.ob('R13.7', 'statements-appended', [c.get('m') for c in calls] == ['push'], L.loc(ps['body']), 'push_statement: self.statements.push(stmt)')
    muts = {}
    for fn in L.fn_list:
        for c in H.calls_in(fn['body']):
            if c.get('k') == 'MCall' and c.get('m') in ('insert', 'remove', 'swap', 'reverse', 'sort', 'sort_by', 'sort_by_key', 'retain', 'truncate', 'clear', 'drain', 'pop', 'push', 'extend', 'rotate_left', 'rotate_right', 'swap_remove', 'dedup'):
                r = H.strip_refs(c['recv'])
                if r.get('k') == 'Field' and r.get('f') == 'statements' and 'BasicBlock' in (L.ty(r['e'], adjusted=True) or L.ty(r['e']) or ''):
                    muts.setdefault(short(fn['path']), set()).add(c['m'])
    ck.ob('R13.7', 'statement-list-mutators', muts == {'BasicBlock::push_statement': {'push'}, 'analyze_block': {'insert'}}, '', 'BasicBlock.statements is changed by %s' % {k: sorted(v) for k, v in muts.items()})
    wsn = L.fn('typedexpr::walk_stmt_nodes')
    if wsn is not None:
        ck.analysed(wsn['path'])
        lp = next((n for n in walk(wsn['body']) if n.get('k') == 'For'), None)
        ok = lp is not None and not any(m.get('k') == 'MCall' and m.get('m') in LF.FILTERS | {'rev'} for m in walk(lp['iter'])) and not any(x.get('k') in ('Break', 'Continue', 'Ret') for x in walk(lp['body'])) and \
            (H.binding_sites(wsn).get((H.root_local(lp['iter']) or {}).get('hid')) or {}).get('kind') == 'param'
        ck.ob('R13.7', 'statements-walked-in-source-order', ok, L.loc(lp) if lp else L.loc(wsn['body']), 'for &n in nodes { walk_stmt(..) }: forwards, all of them')
    wb = next((f for f in L.fn_list if f['path'].endswith('CxxCodeBodyTranslator::write_basic_block')), None)
    if wb is not None:
        lp = next((n for n in walk(wb['body']) if n.get('k') == 'For' and 'statements' in pp(n['iter'])), None)
        ok = lp is not None and not any(m.get('k') == 'MCall' and m.get('m') in LF.FILTERS | {'rev'} for m in walk(lp['iter'])) and H.source_before(lp, next(n for n in walk(wb['body']) if n.get('k') == 'Match'))
        ck.ob('R13.7', 'statements-printed-in-stored-order', ok, L.loc(lp) if lp else L.loc(wb['body']), 'for s in &block.statements { write_statement } before the terminator')
    # call arguments are evaluated left to right
    we = L.fn('typedexpr::walk_expr')
    if we is not None:
        n_arg = 0
        for c in H.calls_in(we['body']):
            if c.get('m') == 'map' and c['args'] and c['args'][0].get('k') == 'Closure' and any(H.is_call_to(x, 'typedexpr::walk_rvalue') for x in H.calls_in(c['args'][0])) and 'arguments' in pp(c['recv'], maxlen=80):
                n_arg += 1
                chain = [m.get('m') for m in walk(c['recv']) if m.get('k') == 'MCall']
                ck.ob('R13.7', 'arguments-evaluated-in-order#%d' % n_arg, not any(m in LF.FILTERS | {'rev'} for m in chain), L.loc(c), 'arguments.iter().map(walk_rvalue): %s' % chain)
        ck.floor('R13.7', n_arg, 1, 'argument-list walks in walk_expr')


def overload_table(ck, L, rule='R13.8'):
    """The by-name method lookup hands out every overload of the name, or an error: `uniquify_methods` can only reject an ambiguous
    handler if it sees all candidates."""
    g = L.fn('typemap::function::MethodDataTable::get_method_with')
    fm = L.fn('typemap::function::MethodDataTable::from_meta')
    if g is None or fm is None:
        ck.floor(rule, 0, 2, 'fns MethodDataTable::get_method_with / from_meta')
        return
    ck.analysed(g['path'])
    ck.analysed(fm['path'])
    bs = H.binding_sites(g)
    # count = number of consecutive entries with this name, from the partition point
    cnt = next((b for b in bs.values() if b['kind'] == 'let' and b['pat'].get('k') == 'Bind' and b['node'].get('init') is not None and
                H.strip_refs(b['node']['init']).get('k') == 'MCall' and H.strip_refs(b['node']['init']).get('m') == 'count' and
                any(c.get('m') == 'take_while' for c in H.calls_in(b['node']['init']))), None)
    m = next((n for n in walk(g['body']) if n.get('k') == 'Match' and cnt is not None and (H.root_local(n['e']) or {}).get('hid') == cnt['bind']['hid'] and H.strip_refs(n['e']).get('k') == 'Path'), None)
    ok = False
    if cnt is not None:
        t = pp(cnt['node']['init'], maxlen=200)
        ok = 'take_while' in t and t.rstrip().endswith('.count()') and 'Eq name' in t.replace('(', ' ').replace(')', ' ') and not re.search(r'\b(filter|skip|step_by)\b', t)
    ck.ob(rule, 'count-is-the-run-of-equal-names', ok and m is not None, L.loc(cnt['node']) if cnt else L.loc(g['body']), 'count = methods[start..].iter().take_while(|d| d.name == name).count(); the result is decided by `match count`')
    if m is None:
        ck.ob(rule, 'dispatch-on-count', False, L.loc(g['body']), 'no `match count` found: which of None / Unique / Overloaded is returned is decided by something else than the number of entries with that name')
        return
    ctors = [c for c in walk(g['body']) if c.get('k') == 'Path' and (c.get('def') or '').startswith('typemap::function::MethodMatches::')]
    seen = {}
    for c in ctors:
        var = c['def'].split('::')[-1]
        arm = next((a for a in H.ancestors(g, c) if a.get('k') == 'Arm' and H.parents(g).get(id(a)) is m), None)
        pat = pp(arm['pat']) if arm is not None else None
        seen.setdefault(var, []).append(pat)
        par = H.parents(g).get(id(c))
        as_map_fn = par is not None and par.get('k') == 'MCall' and par.get('m') == 'map' and 'Result<' in (L.ty(par['recv']) or '')
        if var == 'Unique':
            ck.ob(rule, 'unique-only-for-one-entry', pat == '1' and as_map_fn and 'guard' not in (arm or {}), L.loc(c),
                  'MethodMatches::Unique wraps Method::new(..) of the single entry, under `1 =>`' if pat == '1' and as_map_fn else
                  'MethodMatches::Unique is built outside the `1 =>` arm of `match count` (under %s): a name with several overloads can be reported as unique' % pat)
        elif var == 'Overloaded':
            chain = []
            x = H.strip_refs(par['recv']) if as_map_fn else {}
            while x.get('k') == 'MCall':
                chain.append(x.get('m'))
                x = H.strip_refs(x['recv'])
            rng = pp(x, maxlen=80)
            cname = (cnt['bind'].get('name') if cnt else None) or 'count'
            # the slice is exactly methods[start..start + count]
            whole = False
            if x.get('k') == 'Index' and cnt is not None:
                ri = H.strip_refs(x.get('i', {}))
                fl = {f_['f']: H.strip_refs(f_['e']) for f_ in ri.get('fields', [])} if ri.get('k') == 'Struct' else {}
                st_, en_ = fl.get('start'), fl.get('end')
                whole = st_ is not None and en_ is not None and st_.get('k') == 'Path' and en_.get('k') == 'Binary' and en_.get('op') == 'Add' and \
                    {H.strip_refs(en_['l']).get('hid'), H.strip_refs(en_['r']).get('hid')} == {st_.get('hid'), cnt['bind']['hid']} and 'RangeInclusive' not in (ri.get('def') or '')
            okc = as_map_fn and list(reversed(chain)) == ['iter', 'map', 'collect'] and whole and arm is not None and arm['pat'].get('k') in ('Wild', 'Bind') and 'guard' not in arm
            ck.ob(rule, 'overloaded-holds-every-entry-or-fails', okc, L.loc(c),
                  'Overloaded = methods[start..start + count].iter().map(Method::new).collect::<Result<Vec<_>, _>>(): all entries or the first error' if okc else
                  'the overload set is built by `%s` over `%s` (arm %s): entries can be left out, so an ambiguous signal name can look unambiguous' % ('.'.join(reversed(chain)) or pp(par or c, maxlen=50), rng, pat))
    ck.ob(rule, 'both-kinds-built', sorted(seen) == ['Overloaded', 'Unique'] and all(len(v) == 1 for v in seen.values()), L.loc(m), 'constructors used in get_method_with: %s' % {k_: v for k_, v in seen.items()})
    # binary search precondition: the table is sorted by name, and nothing but the access filter drops entries
    srt = [c for c in H.calls_in(fm['body']) if c.get('m') in ('sort_by', 'sort_by_key', 'sort_unstable_by', 'sort_unstable_by_key', 'sort_by_cached_key')]
    ok = len(srt) == 1 and 'name' in pp(srt[0], maxlen=120)
    ck.ob(rule, 'table-sorted-by-name', ok, L.loc(srt[0]) if srt else L.loc(fm['body']), 'from_meta sorts the entries by name (partition_point / take_while rely on it)')
    flt = [c for c in H.calls_in(fm['body']) if c.get('m') in ('filter', 'filter_map', 'skip', 'take', 'dedup', 'dedup_by_key', 'dedup_by', 'retain', 'truncate')]
    ok = len(flt) == 1 and flt[0]['m'] == 'filter_map' and 'access' in pp(flt[0], maxlen=160) and 'Eq' in pp(flt[0], maxlen=160)
    ck.ob(rule, 'only-the-access-filter-drops-entries', ok, L.loc(flt[0]) if flt else L.loc(fm['body']), 'entries are left out by `m.access == access` only (%d narrowing calls)' % len(flt))
