"""A10: symbolic shape/provenance values for label-like data inside one function.

Abstract values:
  ('at', frozenset(atoms))      scalar whose possible provenances are atoms (strings)
  ('tup', [v, ...])             tuple
  ('seq', v)                    any container / iterator / Option of v
Atoms are symbolic paths rooted at parameters: 'P3', 'P0.1', 'P1[*]', 'P0[*].1', wrapped by method applications the caller
declares transparent to provenance or meaningful: 'next(P3)'. '?' marks a value the evaluator does not understand; 'lit' a literal
or something computed without labels (len, arithmetic).
"""
from facts import walk, pp
import hirutil as H

BOT = ('at', frozenset())
UNK = ('at', frozenset(['?']))
LIT = ('at', frozenset(['lit']))

VIEWS = {'iter', 'into_iter', 'iter_mut', 'copied', 'cloned', 'clone', 'collect', 'rev', 'as_ref', 'as_mut', 'as_slice', 'borrow', 'to_vec', 'to_owned', 'by_ref', 'peekable'}
ELEM = {'last', 'first', 'get', 'pop', 'next_back', 'last_mut', 'first_mut', 'get_mut', 'nth', 'find'}   # Option<elem>
ELEM_DIRECT = {'remove', 'swap_remove'}
FILTERS = {'skip', 'take', 'filter', 'step_by', 'skip_while', 'take_while'}   # keep provenance, recorded as partial iteration


def at(*atoms):
    return ('at', frozenset(atoms))


def join(a, b):
    if a == BOT:
        return b
    if b == BOT:
        return a
    if a[0] == 'at' and b[0] == 'at':
        return ('at', a[1] | b[1])
    if a[0] == 'tup' and b[0] == 'tup' and len(a[1]) == len(b[1]):
        return ('tup', [join(x, y) for x, y in zip(a[1], b[1])])
    if a[0] == 'seq' and b[0] == 'seq':
        return ('seq', join(a[1], b[1]))
    # sym scalars can stand for structures
    if a[0] == 'at' and b[0] in ('tup', 'seq'):
        a, b = b, a
    if a[0] == 'seq' and b[0] == 'at':
        return ('seq', join(a[1], elem(b)))
    if a[0] == 'tup' and b[0] == 'at':
        return ('tup', [join(x, slot(b, i)) for i, x in enumerate(a[1])])
    return UNK


def elem(v):
    if v[0] == 'seq':
        return v[1]
    if v[0] == 'at':
        return ('at', frozenset((a + '[*]') if a not in ('?', 'lit') else a for a in v[1]))
    return UNK


def slot(v, i):
    if v[0] == 'tup':
        return v[1][i] if i < len(v[1]) else UNK
    if v[0] == 'at':
        return ('at', frozenset((a + '.%d' % i) if a not in ('?', 'lit') else a for a in v[1]))
    return UNK


def wrap(v, name):
    if v[0] == 'at':
        return ('at', frozenset(('%s(%s)' % (name, a)) if a not in ('?',) else a for a in v[1]))
    return UNK


def atoms(v):
    if v[0] == 'at':
        return set(v[1])
    if v[0] == 'tup':
        out = set()
        for x in v[1]:
            out |= atoms(x)
        return out
    return atoms(v[1])


class Flow:
    def __init__(self, fn, wrappers=('next',), transparent=('ensure_concrete_string',)):
        self.fn = fn
        self.transparent = tuple(transparent)   # calls that return their first argument as far as provenance goes
        self.wrappers = set(wrappers)
        self.bs = H.binding_sites(fn)
        self.pm = H.parents(fn)
        self.cache = {}
        self.partial = set()    # ids of expressions whose iteration was narrowed by skip/take/filter
        self._busy = set()

    # ---- bindings -------------------------------------------------------------------------------------
    def bind_value(self, pat, val, hid):
        """value bound to hid when `val` is matched against pat (None if hid not in pat)."""
        k = pat.get('k')
        if k == 'Bind':
            if pat.get('hid') == hid:
                return val
            if 'sub' in pat:
                return self.bind_value(pat['sub'], val, hid)
            return None
        if k in ('PRef', 'PDeref'):
            return self.bind_value(pat['p'], val, hid)
        if k == 'PTup':
            for i, s in enumerate(pat['subs']):
                r = self.bind_value(s, slot(val, i), hid)
                if r is not None:
                    return r
            return None
        if k in ('PTS', 'PStruct'):
            name = (pat.get('def') or '').split('::')[-1]
            subs = pat.get('subs') or [f.get('p') for f in pat.get('fields', []) if isinstance(f, dict) and 'p' in f]
            for i, s in enumerate(subs):
                inner = elem(val) if name in ('Some', 'Ok', 'Err') else slot(val, i)
                r = self.bind_value(s, inner, hid)
                if r is not None:
                    return r
            return None
        if k == 'POr':
            out = None
            for a in pat['alts']:
                r = self.bind_value(a, val, hid)
                if r is not None:
                    out = r if out is None else join(out, r)
            return out
        if k == 'PSlice':
            for s in pat.get('subs', []):
                r = self.bind_value(s, elem(val), hid)
                if r is not None:
                    return r
        return None

    def local(self, hid, name='?'):
        if hid in self.cache:
            return self.cache[hid]
        if hid in self._busy:
            return BOT
        self._busy.add(hid)
        b = self.bs.get(hid)
        v = UNK
        if b is not None:
            kind = b['kind']
            if kind == 'param':
                v = self.bind_value(b['pat'], at('P%d' % b['index']), hid) or UNK
            elif kind == 'let':
                init = b['node'].get('init')
                v = self.bind_value(b['pat'], self.val(init), hid) if init is not None else BOT
                v = v if v is not None else UNK
            elif kind == 'letcond':
                v = self.bind_value(b['node']['pat'], self.val(b['node']['e']), hid) or UNK
            elif kind == 'for':
                v = self.bind_value(b['pat'], elem(self.val(b['node']['iter'])), hid) or UNK
            elif kind == 'arm':
                par = self.pm.get(id(b['node']))
                v = self.bind_value(b['pat'], self.val(par['e']), hid) if par is not None and par.get('k') == 'Match' else UNK
                v = v if v is not None else UNK
            elif kind == 'closure_param':
                v = self.closure_param(b)
            # containers filled by mutation: join everything pushed / extended / inserted into the local
            for n in walk(self.fn['body']):
                if n.get('k') == 'MCall' and n.get('m') in ('push', 'extend', 'insert', 'push_back', 'extend_from_slice'):
                    r = H.root_local(n['recv'])
                    if r is not None and r.get('hid') == hid and H.strip_refs(n['recv']).get('k') == 'Path':
                        a = self.val(n['args'][-1])
                        v = join(v if v != UNK or kind != 'let' else BOT, ('seq', a if n['m'] in ('push', 'insert', 'push_back') else elem(a)))
        self._busy.discard(hid)
        self.cache[hid] = v
        return v

    def closure_param(self, b):
        """value of a closure parameter from the adaptor the closure is passed to."""
        clo = b['node']
        par = self.pm.get(id(clo))
        if par is None or par.get('k') != 'MCall':
            return UNK
        m = par.get('m')
        recv = self.val(par['recv'])
        if m in ('map', 'filter_map', 'for_each', 'flat_map', 'and_then', 'filter', 'any', 'all', 'find', 'position', 'inspect', 'is_some_and', 'map_or', 'map_or_else'):
            v = elem(recv)
        else:
            return UNK
        r = self.bind_value(b['pat'], v, b['bind']['hid'])
        return r if r is not None else UNK

    # ---- expressions ------------------------------------------------------------------------------------
    def val(self, e):
        k = e.get('k')
        if k in ('AddrOf', 'Cast', 'Try'):
            return self.val(e['e']) if k != 'Try' else elem(self.val(e['e']))
        if k == 'Unary':
            return self.val(e['e']) if e.get('op') == 'Deref' else LIT
        if k == 'Lit':
            return LIT
        if k == 'Binary':
            return LIT
        if k == 'Path':
            if e.get('res') == 'local':
                return self.local(e['hid'], e.get('name'))
            return LIT if e.get('dk') in ('Const', 'AssocConst', 'Ctor') else UNK
        if k == 'Tup':
            return ('tup', [self.val(x) for x in e['es']])
        if k == 'Array':
            v = BOT
            for x in e['es']:
                v = join(v, self.val(x))
            return ('seq', v)
        if k in ('Block', 'If', 'Match'):
            v = BOT
            for x in H.value_exprs(e):
                if x is not e:
                    v = join(v, self.val(x))
            return v
        if k == 'Field':
            b = self.val(e['e'])
            f = e.get('f')
            return slot(b, int(f)) if str(f).isdigit() else ('at', frozenset((a + '.' + str(f)) if a not in ('?', 'lit') else a for a in atoms(b)))
        if k == 'Index':
            return elem(self.val(e['e']))
        if k == 'Call':
            d = (e.get('def') or '')
            last = d.split('::')[-1]
            if e.get('dk') == 'Ctor' and last in ('Some', 'Ok'):
                return ('seq', self.val(e['args'][0]))
            if e.get('dk') == 'Ctor':
                return ('tup', [self.val(a) for a in e['args']])
            if last in ('new', 'with_capacity', 'default') and 'Vec' in d:
                return ('seq', BOT)
            if last in self.transparent and e['args']:
                return self.val(e['args'][0])
            return UNK
        if k == 'MCall':
            m = e.get('m')
            recv = self.val(e['recv'])
            if m in self.wrappers:
                return wrap(recv, m)
            if m in VIEWS:
                return recv
            if m in FILTERS:
                self.partial.add(id(e))
                return recv
            if m in ELEM:
                return ('seq', elem(recv))
            if m in ELEM_DIRECT:
                return elem(recv)
            if m == 'zip':
                return ('seq', ('tup', [elem(recv), elem(self.val(e['args'][0]))]))
            if m == 'enumerate':
                return ('seq', ('tup', [LIT, elem(recv)]))
            if m == 'chain':
                return ('seq', join(elem(recv), elem(self.val(e['args'][0]))))
            if m in ('map', 'filter_map', 'and_then', 'flat_map'):
                f = e['args'][0]
                if f.get('k') == 'Closure':
                    r = BOT
                    for x in H.return_exprs(f['body'], is_closure=True):
                        r = join(r, self.val(x))
                    return ('seq', elem(r) if m in ('filter_map', 'and_then', 'flat_map') else r)
                return UNK
            if m in ('unwrap', 'expect', 'unwrap_unchecked'):
                return elem(recv)
            if m == 'unwrap_or':
                return join(elem(recv), self.val(e['args'][0]))
            if m == 'unwrap_or_else':
                f = e['args'][0]
                r = BOT
                if f.get('k') == 'Closure':
                    for x in H.return_exprs(f['body'], is_closure=True):
                        r = join(r, self.val(x))
                else:
                    r = UNK
                return join(elem(recv), r)
            if m == 'split_last' or m == 'split_first':
                return ('seq', ('tup', [elem(recv), recv]))
            if m in ('len', 'is_empty', 'is_some', 'is_none', 'contains'):
                return LIT
            return UNK
        if k == 'Closure':
            return UNK
        return UNK
