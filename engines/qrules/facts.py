"""Loader and helpers for the JSON facts written by engines/qfacts.

The facts are the compiler's view of /repo: typed HIR trees (sugar re-folded,
paths and method callees resolved through typeck, macro provenance per node)
and MIR CFGs with resolved callees.  Nothing here is property specific.
"""
import json
import os
import re

# ---------------------------------------------------------------------------
# path normalisation


PRELUDE = {
    'std::prelude::v1::None': 'std::option::Option::None',
    'std::prelude::v1::Some': 'std::option::Option::Some',
    'std::prelude::v1::Ok': 'std::result::Result::Ok',
    'std::prelude::v1::Err': 'std::result::Result::Err',
}


_IMPL_SEG = re.compile(r"::<impl ([^<>]*(?:<[^<>]*(?:<[^<>]*>[^<>]*)*>[^<>]*)*)>::")


def strip_generics(p):
    if p is None:
        return p
    # inherent impls in another module print as `mod::<impl Type>::method`: keep the type's last segment
    while True:
        m = _IMPL_SEG.search(p)
        if not m:
            break
        t = _strip_generics(m.group(1)).split('::')[-1]
        t = re.sub(r"^&?('[a-z_]+ )?(mut )?", '', t)
        p = p[:m.start()] + '::' + t + '::' + p[m.end():]
    r = _strip_generics(p)
    return PRELUDE.get(r, r)


def _strip_generics(p):
    """`a::B::<'t, X<Y>>::f` -> `a::B::f`; `Vec<T>` -> `Vec`.  Keeps `<T as Trait>::m` qualified-self form
    but strips generics inside it."""
    if p is None:
        return p
    out = []
    i = 0
    n = len(p)
    # qualified self: leading '<'
    depth = 0
    while i < n:
        c = p[i]
        if c == '<':
            # qualified-self opener (at start or after a separator that's not an identifier char)
            prev = p[i - 1] if i > 0 else ''
            if i == 0 or prev in '<( ,&':
                out.append(c)
                i += 1
                continue
            # generic args: skip balanced
            d = 0
            j = i
            while j < n:
                if p[j] == '<':
                    d += 1
                elif p[j] == '>' and (j == 0 or p[j - 1] != '-'):
                    d -= 1
                    if d == 0:
                        break
                j += 1
            # drop a preceding '::' (turbofish form)
            if len(out) >= 2 and out[-1] == ':' and out[-2] == ':':
                out.pop()
                out.pop()
            i = j + 1
            continue
        out.append(c)
        i += 1
    return ''.join(out)


_SEG = re.compile(r"[A-Za-z_][A-Za-z0-9_]*(?:::[A-Za-z_{][A-Za-z0-9_#{}]*)+")


def short(p):
    """Shorten every `a::b::C` run inside p to its last segment, except that a
    trailing `Type::method` keeps two segments.  Used for table keys that must
    survive moving code between modules."""
    if p is None:
        return p
    p = strip_generics(p)

    def sh_type(m):
        return m.group(0).split('::')[-1]

    if p.startswith('<'):
        # <T as Trait>::m[::{closure#n}]
        close = p.rfind('>::')
        inner = p[1:close]
        rest = p[close + 3:]
        inner = _SEG.sub(sh_type, inner)
        inner = re.sub(r"'[a-z_]+ ", '', inner)
        return '<%s>::%s' % (inner, rest)
    segs = p.split('::')
    # keep trailing closure segments
    tail = []
    while segs and segs[-1].startswith('{'):
        tail.insert(0, segs.pop())
    keep = segs[-2:] if len(segs) >= 2 and segs[-2][:1].isupper() else segs[-1:]
    return '::'.join(keep + tail)


# ---------------------------------------------------------------------------
# tree helpers

CHILD_KEYS_SKIP = {'sp', 't', 'ta', 'id'}


def is_node(x):
    return isinstance(x, dict) and 'k' in x


def children(n):
    """Direct child nodes (dicts with 'k'), in source order as dumped."""
    for key, v in n.items():
        if key in CHILD_KEYS_SKIP or key[0] == '_':
            continue
        if isinstance(v, dict):
            if 'k' in v:
                yield v
            else:
                for c in children(v):
                    yield c
        elif isinstance(v, list):
            for it in v:
                if isinstance(it, dict):
                    if 'k' in it:
                        yield it
                    else:
                        for c in children(it):
                            yield c


def walk(n, enter_closures=True):
    """Pre-order walk of all nodes below and including n."""
    stack = [n]
    while stack:
        x = stack.pop()
        yield x
        if not enter_closures and x.get('k') == 'Closure' and x is not n:
            continue
        cs = list(children(x))
        cs.reverse()
        stack.extend(cs)


def walk_with_parents(n):
    """Yield (node, parents_tuple) pre-order."""
    stack = [(n, ())]
    while stack:
        x, ps = stack.pop()
        yield x, ps
        cs = list(children(x))
        cs.reverse()
        nps = ps + (x,)
        for c in cs:
            stack.append((c, nps))


class Crate:
    def __init__(self, data, tag):
        self.tag = tag
        self.name = data['crate']
        self.kind = data['kind']
        self.files = data['files']
        self.tys = data['tys']
        self.crate_attrs = data.get('crate_attrs', [])
        self.adts = {}
        for a in data['adts']:
            a['path'] = strip_generics(a['path'])
            self.adts[a['path']] = a
        self.fns = {}
        self.fn_list = []
        for f in data['fns']:
            f['rawpath'] = f['path']
            f['path'] = strip_generics(f['path'])
            f['crate'] = self
            self._norm_tree(f)
            # duplicate paths (e.g. two impls of From for different args) get a suffix
            key = f['path']
            if key in self.fns:
                k = 2
                while '%s#%d' % (key, k) in self.fns:
                    k += 1
                key = '%s#%d' % (key, k)
            f['key'] = key
            self.fns[key] = f
            self.fn_list.append(f)
        self.mir = {}
        self.mir_list = []
        for m in data['mir']:
            m['rawpath'] = m['path']
            m['path'] = strip_generics(m['path'])
            m['crate'] = self
            self._norm_mir(m)
            key = m['path']
            if key in self.mir:
                k = 2
                while '%s#%d' % (key, k) in self.mir:
                    k += 1
                key = '%s#%d' % (key, k)
            m['key'] = key
            self.mir[key] = m
            self.mir_list.append(m)

    def _norm_tree(self, f):
        for part in ('params', 'body'):
            v = f.get(part)
            roots = v if isinstance(v, list) else [v]
            for r in roots:
                if not isinstance(r, dict):
                    continue
                for n in walk(r):
                    for k in ('def', 'inst', 'adt'):
                        if k in n:
                            n['raw' + k] = n[k]
                            n[k] = strip_generics(n[k])

    def _norm_mir(self, m):
        for b in m['blocks']:
            t = b['term']
            for k in ('def', 'inst'):
                if k in t:
                    t['raw' + k] = t[k]
                    t[k] = strip_generics(t[k])
            for s in b['stmts']:
                rv = s.get('rv')
                if rv:
                    for k in ('adt', 'def'):
                        if k in rv:
                            rv[k] = strip_generics(rv[k])

    # ------------------------------------------------------------------
    def ty(self, n, adjusted=False):
        if n is None:
            return None
        i = n.get('ta') if adjusted and 'ta' in n else n.get('t')
        if i is None:
            return None
        return self.tys[i]

    def loc(self, n):
        sp = n.get('sp')
        if not sp:
            return '?'
        return '%s:%d' % (self.files[sp[0]], sp[1])

    def fn(self, suffix):
        """Unique fn whose normalised path ends with `suffix` (on a `::` boundary)."""
        hits = self.find_fns(suffix)
        if len(hits) != 1:
            return None
        return hits[0]

    def find_fns(self, suffix):
        out = []
        for key, f in self.fns.items():
            p = f['path']
            if p == suffix or p.endswith('::' + suffix):
                out.append(f)
        return out

    def find_mir(self, suffix):
        out = []
        for key, m in self.mir.items():
            p = m['path']
            if p == suffix or p.endswith('::' + suffix):
                out.append(m)
        return out

    def mty(self, idx):
        return self.tys[idx]


class Facts:
    def __init__(self, directory):
        self.dir = directory
        self.crates = {}
        for tag in ('qmluic-lib', 'qmluic-bin', 'qmluic_cli-lib'):
            p = os.path.join(directory, tag + '.json')
            with open(p) as fh:
                self.crates[tag] = Crate(json.load(fh), tag)
        self.lib = self.crates['qmluic-lib']
        self.bin = self.crates['qmluic-bin']
        self.cli = self.crates['qmluic_cli-lib']

    def all_crates(self):
        return [self.lib, self.cli, self.bin]


# ---------------------------------------------------------------------------
# pretty printer (pseudo-Rust, for reports and debugging)


PAT_KINDS = {'Wild', 'Bind', 'PLit', 'PPath', 'PTS', 'PStruct', 'POr', 'PTup', 'PRef', 'PDeref', 'PRange', 'PSlice'}


def pp(n, depth=0, maxlen=None):
    if n is None:
        return ''
    s = _pp_pat(n) if n.get('k') in PAT_KINDS else _pp(n, depth)
    if maxlen and len(s) > maxlen:
        s = s[:maxlen - 1] + '…'
    return s


def _sp(d):
    d = d or '?'
    if d.startswith('std::option::Option::') or d.startswith('std::result::Result::'):
        return d.split('::')[-1]
    return short(d)


def _pp_pat(p):
    k = p['k']
    if k == 'Wild':
        return '_'
    if k == 'Bind':
        s = p['name']
        if 'sub' in p:
            s += ' @ ' + _pp_pat(p['sub'])
        return s
    if k == 'PLit':
        return ('-' if p.get('neg') else '') + json.dumps(p.get('v'))
    if k == 'PPath':
        return _sp(p.get('def', p.get('name', '?')))
    if k == 'PTS':
        return '%s(%s)' % (_sp(p.get('def', '?')), ', '.join(_pp_pat(s) for s in p['subs']))
    if k == 'PStruct':
        return '%s{%s%s}' % (_sp(p.get('def', '?')), ', '.join('%s: %s' % (f['f'], _pp_pat(f['p'])) for f in p['fields']),
                             ', ..' if p.get('rest') else '')
    if k == 'POr':
        return ' | '.join(_pp_pat(s) for s in p['alts'])
    if k == 'PTup':
        return '(%s)' % ', '.join(_pp_pat(s) for s in p['subs'])
    if k == 'PRef':
        return '&' + _pp_pat(p['p'])
    if k == 'PDeref':
        return 'box ' + _pp_pat(p['p'])
    if k == 'PRange':
        return '%s..%s' % (_pp_pat(p['lo']) if 'lo' in p else '', _pp_pat(p['hi']) if 'hi' in p else '')
    if k == 'PSlice':
        return '[..]'
    return k


def _pp(n, depth=0):
    if n is None:
        return ''
    k = n.get('k')
    if k == 'Lit':
        return json.dumps(n.get('v'))
    if k == 'Path':
        if n.get('res') == 'local':
            return n['name']
        d = n.get('def', n.get('res', '?'))
        if d.startswith('std::option::Option::') or d.startswith('std::result::Result::'):
            return d.split('::')[-1]
        return short(d)
    if k == 'Call':
        return '%s(%s)' % (_pp(n['f']), ', '.join(_pp(a) for a in n['args']))
    if k == 'MCall':
        return '%s.%s(%s)' % (_pp(n['recv']), n['m'], ', '.join(_pp(a) for a in n['args']))
    if k == 'Tup':
        return '(%s)' % ', '.join(_pp(a) for a in n['es'])
    if k == 'Array':
        return '[%s]' % ', '.join(_pp(a) for a in n['es'])
    if k == 'Binary':
        return '(%s %s %s)' % (_pp(n['l']), n['op'], _pp(n['r']))
    if k == 'Unary':
        return '%s(%s)' % (n['op'], _pp(n['e']))
    if k == 'Cast':
        return '(%s as _)' % _pp(n['e'])
    if k == 'LetCond':
        return 'let %s = %s' % (_pp_pat(n['pat']), _pp(n['e']))
    if k == 'If':
        s = 'if %s %s' % (_pp(n['c']), _pp(n['then']))
        if 'els' in n:
            s += ' else ' + _pp(n['els'])
        return s
    if k == 'Loop':
        return 'loop[%s] %s' % (n.get('src'), _pp(n['body']))
    if k == 'For':
        return 'for %s in %s %s' % (_pp_pat(n['pat']), _pp(n['iter']), _pp(n['body']))
    if k == 'Try':
        return _pp(n['e']) + '?'
    if k == 'Match':
        arms = []
        for a in n['arms']:
            g = (' if ' + _pp(a['guard'])) if 'guard' in a else ''
            arms.append('%s%s => %s' % (_pp_pat(a['pat']), g, _pp(a['body'])))
        return 'match %s { %s }' % (_pp(n['e']), ', '.join(arms))
    if k == 'Closure':
        return '|%s| %s' % (', '.join(_pp_pat(p) for p in n['params']), _pp(n['body']))
    if k == 'Block':
        parts = []
        for s in n['stmts']:
            if s['k'] == 'Let':
                x = 'let %s' % _pp_pat(s['pat'])
                if 'init' in s:
                    x += ' = ' + _pp(s['init'])
                if 'els' in s:
                    x += ' else ' + _pp(s['els'])
                parts.append(x)
            else:
                parts.append(_pp(s['e']))
        if 'e' in n:
            parts.append(_pp(n['e']))
        return '{ %s }' % '; '.join(parts)
    if k == 'Assign':
        return '%s = %s' % (_pp(n['l']), _pp(n['r']))
    if k == 'AssignOp':
        return '%s %s= %s' % (_pp(n['l']), n['op'], _pp(n['r']))
    if k == 'Field':
        return '%s.%s' % (_pp(n['e']), n['f'])
    if k == 'Index':
        return '%s[%s]' % (_pp(n['e']), _pp(n['i']))
    if k == 'AddrOf':
        return '&%s%s' % ('mut ' if n.get('mut') else '', _pp(n['e']))
    if k == 'Break':
        return 'break' + ((' ' + _pp(n['e'])) if 'e' in n else '')
    if k == 'Continue':
        return 'continue'
    if k == 'Ret':
        return 'return' + ((' ' + _pp(n['e'])) if 'e' in n else '')
    if k == 'Struct':
        return '%s{%s}' % (short(n.get('def', '?')), ', '.join('%s: %s' % (f['f'], _pp(f['e'])) for f in n['fields']))
    if k == 'Repeat':
        return '[%s; _]' % _pp(n['e'])
    if k in ('Expr', 'Semi'):
        return _pp(n['e'])
    return k or '?'
