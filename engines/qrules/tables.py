"""A4 decision tables: turn `match` expressions of the typed HIR into ordered tables of (pattern keys -> value summary)."""
from facts import walk, short, pp
import hirutil as H


def last(p):
    return (p or '').split('::')[-1]


def last2(p):
    s = (p or '').split('::')
    return '::'.join(s[-2:])


def peel_pat(p):
    while p.get('k') in ('PRef', 'PDeref'):
        p = p['p']
    if p.get('k') == 'Bind' and 'sub' in p:
        return peel_pat(p['sub'])
    return p


def pat_key(p):
    """Structural key of a pattern: nested tuples of variant names / literals; 'any' for wildcards and bindings."""
    p = peel_pat(p)
    k = p.get('k')
    if k == 'PLit':
        return ('lit', p.get('v'))
    if k == 'PPath':
        return ('path', last(p.get('def')), last2(p.get('def')))
    if k == 'PTS':
        return ('ts', last(p.get('def')), last2(p.get('def')), tuple(pat_key(s) for s in p['subs']))
    if k == 'PStruct':
        return ('struct', last(p.get('def')), last2(p.get('def')))
    if k == 'PTup':
        return ('tup', tuple(pat_key(s) for s in p['subs']))
    if k == 'POr':
        return ('or', tuple(pat_key(s) for s in p['alts']))
    if k in ('Wild', 'Bind'):
        return ('any',)
    return ('?', k)


def alternatives(p):
    """Flatten top-level or-patterns into a list of pattern nodes."""
    p0 = peel_pat(p)
    if p0.get('k') == 'POr':
        out = []
        for a in p0['alts']:
            out.extend(alternatives(a))
        return out
    return [p]


ANY = ('<any>',)


def variant_names(p):
    """All variant names (last path segment) a pattern alternative can match at its head, or ['*'] for catch-all."""
    out = []
    for a in alternatives(p):
        a = peel_pat(a)
        if a.get('k') in ('PPath', 'PTS', 'PStruct'):
            out.append(last(a.get('def')))
        elif a.get('k') == 'PLit':
            out.append(a.get('v'))
        elif a.get('k') in ('Wild', 'Bind'):
            out.append(ANY)
        else:
            out.append('?')
    return out


def ctor_chain(e):
    """Ok(BinaryOp::Arith(BinaryArithOp::Add)) -> ['Ok', 'Arith', 'Add']; Err(()) -> ['Err']; paths -> [last]."""
    out = []
    x = H.strip_refs(e)
    guard = 0
    while guard < 10:
        guard += 1
        if x.get('k') == 'Block' and not x.get('stmts') and 'e' in x:
            x = H.strip_refs(x['e'])
            continue
        if x.get('k') == 'Call' and x.get('dk') == 'Ctor':
            out.append(last(x.get('def')))
            if len(x['args']) == 1:
                x = H.strip_refs(x['args'][0])
                continue
            break
        if x.get('k') == 'Path' and x.get('res') == 'def':
            out.append(last(x.get('def')))
            break
        if x.get('k') == 'Lit':
            out.append(('lit', x.get('v')))
            break
        if x.get('k') == 'Tup' and not x['es']:
            break
        out.append('?' + pp(x, maxlen=30))
        break
    return out


def simple_table(match, value=ctor_chain):
    """{variant-or-literal: value summary} for a match whose arms are alternatives of paths/literals.
    Returns (table, catch_all_value or None)."""
    table = {}
    rest = None
    for arm in match['arms']:
        vals = list(H.value_exprs(arm['body']))
        if len(vals) == 1 and vals[0].get('k') == 'Ret':
            v = ['!diverges']
        elif not vals:
            v = ['!diverges'] if any(x.get('k') == 'Ret' for x in walk(arm['body'])) else ['?']
        else:
            v = value(vals[0]) if len(vals) == 1 else ['?multi']
        for name in variant_names(arm['pat']):
            if name == ANY:
                rest = v
            else:
                table.setdefault(name, v)
    return table, rest


def find_match_on(fn, pred):
    """First Match node in fn whose scrutinee satisfies pred(scrutinee)."""
    for n in walk(fn['body']):
        if n.get('k') == 'Match' and pred(n['e']):
            return n
    return None
