"""Enumerate panic-capable sites from the typed HIR (one record per site, keyed without line numbers)."""
import re
from facts import walk, short, pp
import hirutil as H

PANIC_MACROS = {'panic', 'unreachable', 'assert', 'assert_eq', 'assert_ne', 'todo', 'unimplemented',
                'debug_assert', 'debug_assert_eq', 'debug_assert_ne'}
UNWRAPS = {'unwrap', 'expect', 'unwrap_err', 'expect_err', 'unwrap_unchecked'}
PANICKY_METHODS = {
    'std::vec::Vec::remove', 'std::vec::Vec::swap_remove', 'std::vec::Vec::insert', 'std::vec::Vec::split_off',
    'std::vec::Vec::drain', 'std::vec::Vec::truncate_front', 'std::collections::VecDeque::remove',
    'core::slice::split_at', 'core::str::split_at', 'std::string::String::remove', 'std::string::String::insert',
    'std::string::String::insert_str', 'std::string::String::split_off', 'std::string::String::drain',
    'std::string::String::replace_range', 'core::slice::copy_from_slice', 'core::slice::clone_from_slice',
    'core::slice::split_at_mut', 'core::slice::chunks', 'core::slice::chunks_exact', 'core::slice::windows',
    'std::iter::Iterator::step_by', 'core::slice::swap', 'core::slice::rotate_left', 'core::slice::rotate_right',
    'std::cell::RefCell::borrow', 'std::cell::RefCell::borrow_mut', 'core::slice::select_nth_unstable',
    'std::sync::Mutex::lock', 'core::char::from_digit', 'core::str::from_utf8_unchecked',
}
PANICKY_NAMES = {'remove', 'swap_remove', 'insert', 'insert_str', 'split_off', 'drain', 'split_at', 'split_at_mut', 'copy_from_slice',
                 'clone_from_slice', 'chunks', 'chunks_exact', 'windows', 'step_by', 'swap', 'rotate_left', 'rotate_right',
                 'borrow_mut', 'lock', 'replace_range', 'select_nth_unstable', 'split_first_chunk', 'as_chunks'}
DERIVES = {'Clone', 'Debug', 'PartialEq', 'Eq', 'Hash', 'Default', 'Ord', 'PartialOrd', 'Deserialize', 'Serialize', 'Error', 'Parser', 'Args', 'Subcommand'}
INT_TY = re.compile(r'^(u8|u16|u32|u64|u128|usize|i8|i16|i32|i64|i128|isize)$')


def _canon(d):
    """std::/core::/alloc:: visible-path variants -> a canonical spelling used in PANICKY_METHODS."""
    d = d or ''
    d = re.sub(r'^<?(alloc|core|std)::', 'std::', d)
    d = d.replace('std::slice::<impl [T]>::', 'core::slice::').replace('std::str::<impl str>::', 'core::str::')
    d = d.replace('std::char::methods::<impl char>::', 'core::char::')
    return d


def sites_of_fn(crate, fn):
    """Yield dict(kind, what, node) for each panic-capable site directly in fn (closures included)."""
    pm = H.parents(fn)
    seen_macro_calls = set()
    for n in walk(fn['body']):
        k = n.get('k')
        x = n.get('x')
        if x in PANIC_MACROS or n.get('xi') in PANIC_MACROS:
            mac = x if x in PANIC_MACROS else n.get('xi')
            # one site per macro invocation: take the outermost node carrying this macro at this span
            par = pm.get(id(n))
            if par is not None and (par.get('x') == x and par.get('sp') == n.get('sp')):
                continue
            spkey = (mac, tuple(n.get('sp') or ()))
            if spkey in seen_macro_calls:
                continue
            seen_macro_calls.add(spkey)
            yield {'kind': 'macro:' + mac, 'what': '', 'node': n}
            continue
        if x is not None and x not in ('matches', 'vec', 'format', 'write', 'writeln', 'impl_attached_i32_property', 'impl_attached_enum_property', 'eprintln', 'println') and fn.get('x') is None and False:
            continue
        if k == 'MCall' and n.get('m') in UNWRAPS:
            d = n.get('def') or ''
            if re.search(r'(option::Option|result::Result)::', d):
                recv = n['recv']
                while recv.get('k') in ('Try', 'AddrOf') or (recv.get('k') == 'MCall' and recv.get('m') in ('as_ref', 'as_mut', 'as_deref', 'cloned', 'copied', 'ok', 'take')):
                    recv = recv['recv'] if recv.get('k') == 'MCall' else recv['e']
                rname = recv.get('m') or short(H.callee_decl(recv) or '') or (recv.get('name') if recv.get('k') == 'Path' else recv.get('f')) or recv.get('k')
                yield {'kind': 'unwrap', 'what': 'on ' + str(rname), 'node': n}
                continue
        if k == 'MCall' and n['m'] in PANICKY_NAMES:
            rt = crate.ty(n['recv'], adjusted=True) or crate.ty(n['recv']) or ''
            rt = re.sub(r"^(&(mut )?('[a-z_]+ )?)+", '', rt)
            m_ = re.match(r'^(std::vec::Vec|std::collections::VecDeque|std::string::String|str\b|\[|std::cell::RefCell|std::sync::Mutex)', rt)
            if m_ or n['m'] == 'step_by':
                tname = {'std::vec::Vec': 'Vec', 'std::collections::VecDeque': 'VecDeque', 'std::string::String': 'String', 'str': 'str', '[': 'slice',
                         'std::cell::RefCell': 'RefCell', 'std::sync::Mutex': 'Mutex'}.get(m_.group(1) if m_ else '', 'Iterator')
                yield {'kind': 'call', 'what': '%s::%s' % (tname, n['m']), 'node': n}
                continue
        if k in ('MCall', 'Call'):
            dd = H.callee_decl(n) or ''
            if k == 'MCall' and n['m'].startswith('unwrap_') and 'EvaluatedValue' in (crate.ty(n['recv']) or ''):
                yield {'kind': 'typed-unwrap', 'what': n['m'], 'node': n}
                continue
            if dd.startswith('std::process::exit') or dd.startswith('std::process::abort'):
                yield {'kind': 'exit', 'what': dd.split('::')[-1] + '(%s)' % ', '.join(pp(a, maxlen=10) for a in n['args']), 'node': n}
                continue
        if k == 'Index':
            bt = crate.ty(n['e'], adjusted=True) or crate.ty(n['e']) or ''
            it = crate.ty(n['i']) or ''
            base = re.sub(r"^&(mut )?", '', bt)
            base = re.sub(r'<.*', '', base)
            yield {'kind': 'index', 'what': '%s[%s]' % (short(base) or base, 'range' if 'Range' in it else short(it) or it), 'node': n}
            continue
        if k in ('Binary', 'AssignOp') and n.get('op') in ('Div', 'Rem'):
            lt = crate.ty(n['l']) or ''
            if INT_TY.match(lt):
                r = H.strip_refs(n['r'])
                if r.get('k') == 'Lit' and r.get('v') not in (0, '0'):
                    continue  # constant non-zero divisor
                yield {'kind': 'div', 'what': '%s %s' % (lt, n['op']), 'node': n}
                continue


def inventory(crate):
    out = []
    for fn in crate.fn_list:
        if fn.get('x') in DERIVES:
            continue
        ordn = {}
        for s in sites_of_fn(crate, fn):
            base = '%s|%s|%s' % (short(fn['path']), s['kind'], s['what'])
            i = ordn.get(base, 0)
            ordn[base] = i + 1
            s['key'] = base if not i else '%s#%d' % (base, i + 1)
            s['fn'] = fn
            s['loc'] = crate.loc(s['node'])
            out.append(s)
    return out
