//! MIR dump (optimized_mir at -Zmir-opt-level=0): CFG, statements, resolved callees.

use crate::json::J;
use crate::{path_of, span_json, ty_str, Shared};
use rustc_hir::def_id::LocalDefId;
use rustc_middle::mir::{self, Operand, Place, Rvalue, StatementKind, TerminatorKind};
use rustc_middle::ty::{self, TyCtxt};

struct M<'a, 'tcx> {
    tcx: TyCtxt<'tcx>,
    sh: &'a mut Shared,
    body: &'tcx mir::Body<'tcx>,
    owner: LocalDefId,
}

impl<'a, 'tcx> M<'a, 'tcx> {
    fn ty_idx(&mut self, t: ty::Ty<'tcx>) -> J {
        let s = ty_str(t);
        J::Int(self.sh.tys.get(s) as i128)
    }

    fn sp(&mut self, n: &mut J, sp: rustc_span::Span) {
        let (spj, outer, inner) = span_json(self.tcx, self.sh, sp);
        n.set("sp", spj);
        if let Some(o) = outer {
            if let Some(i) = inner {
                if i != o {
                    n.set("xi", J::s(i));
                }
            }
            n.set("x", J::s(o));
        }
    }

    fn place(&mut self, p: &Place<'tcx>) -> J {
        let mut n = J::obj().with("l", J::Int(p.local.as_u32() as i128));
        if !p.projection.is_empty() {
            let mut proj = Vec::new();
            let mut pty = mir::PlaceTy::from_ty(self.body.local_decls[p.local].ty);
            for elem in p.projection.iter() {
                match elem {
                    mir::ProjectionElem::Deref => proj.push(J::s("*")),
                    mir::ProjectionElem::Field(f, _) => {
                        let mut fj = J::obj().with("f", J::Int(f.as_u32() as i128));
                        if let ty::Adt(adt, _) = pty.ty.kind() {
                            let vidx = pty.variant_index.unwrap_or(rustc_abi::FIRST_VARIANT);
                            if vidx.as_usize() < adt.variants().len() {
                                let v = adt.variant(vidx);
                                if f.as_usize() < v.fields.len() {
                                    fj.set("name", J::s(v.fields[f].name.to_string()));
                                    fj.set("adt", J::s(path_of(self.tcx, adt.did())));
                                    if adt.is_enum() {
                                        fj.set("variant", J::s(v.name.to_string()));
                                    }
                                }
                            }
                        }
                        proj.push(fj);
                    }
                    mir::ProjectionElem::Index(l) => {
                        proj.push(J::obj().with("idx", J::Int(l.as_u32() as i128)));
                    }
                    mir::ProjectionElem::ConstantIndex { offset, from_end, .. } => {
                        proj.push(J::obj().with("cidx", J::Int(offset as i128)).with("from_end", J::Bool(from_end)));
                    }
                    mir::ProjectionElem::Subslice { from, to, from_end } => {
                        proj.push(
                            J::obj()
                                .with("sub_from", J::Int(from as i128))
                                .with("sub_to", J::Int(to as i128))
                                .with("from_end", J::Bool(from_end)),
                        );
                    }
                    mir::ProjectionElem::Downcast(name, vi) => {
                        let mut d = J::obj().with("dc", J::Int(vi.as_u32() as i128));
                        if let Some(nm) = name {
                            d.set("variant", J::s(nm.to_string()));
                        }
                        proj.push(d);
                    }
                    _ => proj.push(J::s("?")),
                }
                pty = pty.projection_ty(self.tcx, elem);
            }
            n.set("proj", J::Arr(proj));
        }
        n
    }

    fn constant(&mut self, c: &mir::ConstOperand<'tcx>) -> J {
        let t = c.const_.ty();
        let mut n = J::obj();
        let ti = self.ty_idx(t);
        n.set("ty", ti);
        match t.kind() {
            ty::FnDef(did, args) => {
                n.set("fn", J::s(path_of(self.tcx, *did)));
                if !args.is_empty() {
                    n.set("ga", J::s(ty::print::with_no_trimmed_paths!(format!("{:?}", args))));
                }
            }
            _ => {
                let env = ty::TypingEnv::post_analysis(self.tcx, self.owner.to_def_id());
                if t.is_integral() || t.is_bool() || t.is_char() {
                    if let Some(si) = c.const_.try_eval_scalar_int(self.tcx, env) {
                        let size = si.size();
                        if t.is_signed() {
                            n.set("int", J::Int(si.to_int(size)));
                        } else {
                            n.set("int", J::Int(si.to_uint(size) as i128));
                        }
                    }
                } else if t.is_floating_point() {
                    n.set("float", J::s(format!("{}", c.const_)));
                } else {
                    // &str and other constants: textual form ("const \"abc\"")
                    let s = ty::print::with_no_trimmed_paths!(format!("{}", c.const_));
                    let s = if s.len() > 400 { s[..s.char_indices().nth(200).map(|x| x.0).unwrap_or(0)].to_string() } else { s };
                    n.set("text", J::s(s));
                }
            }
        }
        n
    }

    fn operand(&mut self, o: &Operand<'tcx>) -> J {
        match o {
            Operand::Copy(p) => J::obj().with("cp", self.place(p)),
            Operand::Move(p) => J::obj().with("mv", self.place(p)),
            Operand::Constant(c) => J::obj().with("c", self.constant(c)),
            #[allow(unreachable_patterns)]
            _ => J::obj().with("other", J::s(format!("{:?}", o))),
        }
    }

    fn rvalue(&mut self, rv: &Rvalue<'tcx>) -> J {
        match rv {
            Rvalue::Use(o, ..) => J::obj().with("k", J::s("Use")).with("op", self.operand(o)),
            Rvalue::Repeat(o, _) => J::obj().with("k", J::s("Repeat")).with("op", self.operand(o)),
            Rvalue::Ref(_, bk, p) => J::obj()
                .with("k", J::s("Ref"))
                .with("mut", J::Bool(matches!(bk, mir::BorrowKind::Mut { .. })))
                .with("p", self.place(p)),
            Rvalue::RawPtr(_, p) => J::obj().with("k", J::s("RawPtr")).with("p", self.place(p)),
            Rvalue::Cast(kind, o, t) => {
                let from = o.ty(&self.body.local_decls, self.tcx);
                J::obj()
                    .with("k", J::s("Cast"))
                    .with("ck", J::s(format!("{:?}", kind)))
                    .with("op", self.operand(o))
                    .with("from", self.ty_idx(from))
                    .with("to", self.ty_idx(*t))
            }
            Rvalue::BinaryOp(op, b) => {
                let lt = b.0.ty(&self.body.local_decls, self.tcx);
                J::obj()
                    .with("k", J::s("BinaryOp"))
                    .with("op", J::s(format!("{:?}", op)))
                    .with("l", self.operand(&b.0))
                    .with("r", self.operand(&b.1))
                    .with("lt", self.ty_idx(lt))
            }
            Rvalue::UnaryOp(op, o) => {
                let lt = o.ty(&self.body.local_decls, self.tcx);
                J::obj()
                    .with("k", J::s("UnaryOp"))
                    .with("op", J::s(format!("{:?}", op)))
                    .with("e", self.operand(o))
                    .with("lt", self.ty_idx(lt))
            }
            Rvalue::Discriminant(p) => J::obj().with("k", J::s("Discriminant")).with("p", self.place(p)),
            Rvalue::Aggregate(kind, ops) => {
                let mut n = J::obj().with("k", J::s("Aggregate"));
                match &**kind {
                    mir::AggregateKind::Array(_) => {
                        n.set("ak", J::s("Array"));
                    }
                    mir::AggregateKind::Tuple => {
                        n.set("ak", J::s("Tuple"));
                    }
                    mir::AggregateKind::Adt(did, vi, _, _, _) => {
                        n.set("ak", J::s("Adt"));
                        let adt = self.tcx.adt_def(*did);
                        n.set("adt", J::s(path_of(self.tcx, *did)));
                        n.set("variant", J::s(adt.variant(*vi).name.to_string()));
                        n.set("vidx", J::Int(vi.as_u32() as i128));
                    }
                    mir::AggregateKind::Closure(did, _) => {
                        n.set("ak", J::s("Closure"));
                        n.set("def", J::s(path_of(self.tcx, *did)));
                    }
                    other => {
                        n.set("ak", J::s(format!("{:?}", other).chars().take(40).collect::<String>()));
                    }
                }
                let os: Vec<J> = ops.iter().map(|o| self.operand(o)).collect();
                n.set("ops", J::Arr(os));
                n
            }
            Rvalue::CopyForDeref(p) => J::obj().with("k", J::s("CopyForDeref")).with("p", self.place(p)),
            other => J::obj().with("k", J::s("Other")).with("text", J::s(format!("{:?}", other).chars().take(80).collect::<String>())),
        }
    }
}

pub fn dump_body<'tcx>(tcx: TyCtxt<'tcx>, sh: &mut Shared, ldid: LocalDefId) -> J {
    let did = ldid.to_def_id();
    let body: &'tcx mir::Body<'tcx> = tcx.optimized_mir(did);
    let mut m = M { tcx, sh, body, owner: ldid };
    let mut n = J::obj().with("path", J::s(path_of(tcx, did)));
    n.set("argc", J::Int(body.arg_count as i128));
    // locals
    let mut names: Vec<Option<String>> = vec![None; body.local_decls.len()];
    let mut upvars = Vec::new();
    for vdi in body.var_debug_info.iter() {
        if let mir::VarDebugInfoContents::Place(p) = vdi.value {
            if p.projection.is_empty() {
                names[p.local.as_usize()] = Some(vdi.name.to_string());
            } else {
                upvars.push(J::obj().with("name", J::s(vdi.name.to_string())).with("p", m.place(&p)));
            }
        }
    }
    let mut locals = Vec::new();
    for (i, d) in body.local_decls.iter_enumerated() {
        let mut l = J::obj().with("ty", m.ty_idx(d.ty));
        if let Some(nm) = &names[i.as_usize()] {
            l.set("name", J::s(nm.clone()));
        }
        locals.push(l);
    }
    n.set("locals", J::Arr(locals));
    if !upvars.is_empty() {
        n.set("upvars", J::Arr(upvars));
    }
    let mut blocks = Vec::new();
    for (_bb, data) in body.basic_blocks.iter_enumerated() {
        let mut stmts = Vec::new();
        for st in data.statements.iter() {
            match &st.kind {
                StatementKind::Assign(b) => {
                    let (p, rv) = &**b;
                    let mut s = J::obj().with("k", J::s("A")).with("p", m.place(p)).with("rv", m.rvalue(rv));
                    m.sp(&mut s, st.source_info.span);
                    stmts.push(s);
                }
                StatementKind::SetDiscriminant { place, variant_index } => {
                    let mut s = J::obj()
                        .with("k", J::s("SetDiscr"))
                        .with("p", m.place(place))
                        .with("vidx", J::Int(variant_index.as_u32() as i128));
                    m.sp(&mut s, st.source_info.span);
                    stmts.push(s);
                }
                _ => {}
            }
        }
        let mut b = J::obj().with("stmts", J::Arr(stmts));
        if data.is_cleanup {
            b.set("cleanup", J::Bool(true));
        }
        let term = data.terminator();
        let mut t = J::obj();
        match &term.kind {
            TerminatorKind::Goto { target } => {
                t.set("k", J::s("Goto"));
                t.set("t", J::Int(target.as_u32() as i128));
            }
            TerminatorKind::SwitchInt { discr, targets } => {
                t.set("k", J::s("Switch"));
                t.set("op", m.operand(discr));
                let mut vals = Vec::new();
                let mut tg = Vec::new();
                for (v, bb) in targets.iter() {
                    vals.push(J::Int(v as i128));
                    tg.push(J::Int(bb.as_u32() as i128));
                }
                t.set("vals", J::Arr(vals));
                t.set("targets", J::Arr(tg));
                t.set("otherwise", J::Int(targets.otherwise().as_u32() as i128));
            }
            TerminatorKind::Return => {
                t.set("k", J::s("Return"));
            }
            TerminatorKind::Unreachable => {
                t.set("k", J::s("Unreachable"));
            }
            TerminatorKind::UnwindResume => {
                t.set("k", J::s("Resume"));
            }
            TerminatorKind::UnwindTerminate(_) => {
                t.set("k", J::s("Terminate"));
            }
            TerminatorKind::Drop { place, target, .. } => {
                t.set("k", J::s("Drop"));
                t.set("p", m.place(place));
                t.set("t", J::Int(target.as_u32() as i128));
            }
            TerminatorKind::Call { func, args, destination, target, unwind, fn_span, .. } => {
                t.set("k", J::s("Call"));
                let fty = func.ty(&body.local_decls, tcx);
                if let ty::FnDef(cdid, cargs) = fty.kind() {
                    t.set("def", J::s(path_of(tcx, *cdid)));
                    if !cargs.is_empty() {
                        t.set("ga", J::s(ty::print::with_no_trimmed_paths!(format!("{:?}", cargs))));
                    }
                    let env = ty::TypingEnv::post_analysis(tcx, did);
                    let r = std::panic::catch_unwind(std::panic::AssertUnwindSafe(|| {
                        ty::Instance::try_resolve(tcx, env, *cdid, cargs)
                    }));
                    if let Ok(Ok(Some(inst))) = r {
                        let d = inst.def_id();
                        if d != *cdid {
                            t.set("inst", J::s(path_of(tcx, d)));
                        }
                    }
                } else {
                    t.set("fop", m.operand(func));
                    t.set("fty", J::s(ty_str(fty)));
                }
                let aj: Vec<J> = args.iter().map(|a| m.operand(&a.node)).collect();
                t.set("args", J::Arr(aj));
                t.set("dest", m.place(destination));
                if let Some(tb) = target {
                    t.set("t", J::Int(tb.as_u32() as i128));
                }
                if let mir::UnwindAction::Cleanup(c) = unwind {
                    t.set("unwind", J::Int(c.as_u32() as i128));
                }
                let (fsp, _, _) = span_json(tcx, m.sh, *fn_span);
                t.set("fsp", fsp);
            }
            TerminatorKind::Assert { cond, expected, msg, target, .. } => {
                t.set("k", J::s("Assert"));
                t.set("cond", m.operand(cond));
                t.set("expected", J::Bool(*expected));
                let kind = format!("{:?}", msg);
                let kind = kind.split(|c: char| !c.is_alphanumeric()).next().unwrap_or("").to_string();
                t.set("msg", J::s(kind));
                t.set("t", J::Int(target.as_u32() as i128));
            }
            TerminatorKind::FalseEdge { real_target, .. } => {
                t.set("k", J::s("Goto"));
                t.set("t", J::Int(real_target.as_u32() as i128));
            }
            TerminatorKind::FalseUnwind { real_target, .. } => {
                t.set("k", J::s("Goto"));
                t.set("t", J::Int(real_target.as_u32() as i128));
            }
            other => {
                t.set("k", J::s("Other"));
                t.set("text", J::s(format!("{:?}", other).chars().take(80).collect::<String>()));
            }
        }
        m.sp(&mut t, term.source_info.span);
        b.set("term", t);
        blocks.push(b);
    }
    n.set("blocks", J::Arr(blocks));
    n
}
