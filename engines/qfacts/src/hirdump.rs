//! Typed HIR tree dump: every body owner's expression tree with paths, method
//! callees and field accesses resolved through typeck, sugar (`for`, `?`)
//! re-folded, and macro provenance per node.

use crate::json::J;
use crate::{path_of, span_json, ty_str, Shared};
use rustc_hir as hir;
use rustc_hir::def::{DefKind, Res};
use rustc_hir::def_id::{DefId, LocalDefId};
use rustc_middle::ty::{self, TyCtxt, TypeckResults};

pub struct Cx<'a, 'tcx> {
    pub tcx: TyCtxt<'tcx>,
    pub sh: &'a mut Shared,
    pub tr: &'tcx TypeckResults<'tcx>,
    pub owner: LocalDefId,
    pub next_id: usize,
}

fn defkind_str(dk: DefKind) -> String {
    format!("{:?}", dk).split(|c: char| !c.is_alphanumeric()).next().unwrap_or("").to_string()
}

impl<'a, 'tcx> Cx<'a, 'tcx> {
    fn ty_idx(&mut self, t: ty::Ty<'tcx>) -> J {
        let s = ty_str(t);
        J::Int(self.sh.tys.get(s) as i128)
    }

    fn node(&mut self, k: &'static str, sp: rustc_span::Span) -> J {
        let (spj, outer, inner) = span_json(self.tcx, self.sh, sp);
        let mut n = J::obj().with("k", J::s(k)).with("sp", spj);
        if let Some(o) = outer {
            if let Some(i) = inner {
                if i != o {
                    n.set("xi", J::s(i));
                }
            }
            n.set("x", J::s(o));
        }
        n
    }

    fn resolve_inst(&self, did: DefId, args: ty::GenericArgsRef<'tcx>) -> Option<String> {
        // Only meaningful for trait items.
        if self.tcx.trait_of_assoc(did).is_none() {
            return None;
        }
        if args.len() != self.tcx.generics_of(did).count() {
            return None;
        }
        let env = ty::TypingEnv::post_analysis(self.tcx, self.owner.to_def_id());
        let r = std::panic::catch_unwind(std::panic::AssertUnwindSafe(|| {
            ty::Instance::try_resolve(self.tcx, env, did, args)
        }));
        match r {
            Ok(Ok(Some(inst))) => {
                let d = inst.def_id();
                if d != did {
                    Some(path_of(self.tcx, d))
                } else {
                    None
                }
            }
            _ => None,
        }
    }

    fn res_json(&mut self, n: &mut J, res: Res, hir_id: hir::HirId) {
        match res {
            Res::Local(id) => {
                n.set("res", J::s("local"));
                n.set("name", J::s(self.tcx.hir_name(id).to_string()));
                n.set("hid", J::s(format!("{}", id.local_id.as_u32())));
            }
            Res::Def(dk, did) => {
                n.set("res", J::s("def"));
                n.set("dk", J::s(defkind_str(dk)));
                let mut did2 = did;
                // Map constructor defs to their variant/struct path.
                if let DefKind::Ctor(..) = dk {
                    did2 = self.tcx.parent(did);
                }
                n.set("def", J::s(path_of(self.tcx, did2)));
                if matches!(dk, DefKind::Fn | DefKind::AssocFn) {
                    let args = self.tr.node_args(hir_id);
                    if let Some(i) = self.resolve_inst(did, args) {
                        n.set("inst", J::s(i));
                    }
                    if !args.is_empty() {
                        n.set("ga", J::s(ty::print::with_no_trimmed_paths!(format!("{:?}", args))));
                    }
                }
            }
            Res::SelfCtor(did) | Res::SelfTyAlias { alias_to: did, .. } => {
                n.set("res", J::s("self"));
                n.set("def", J::s(path_of(self.tcx, did)));
            }
            other => {
                n.set("res", J::s(format!("{:?}", other)));
            }
        }
    }

    pub fn pat(&mut self, p: &'tcx hir::Pat<'tcx>) -> J {
        use hir::PatKind as P;
        match p.kind {
            P::Wild => self.node("Wild", p.span),
            P::Missing => self.node("Missing", p.span),
            P::Never => self.node("Never", p.span),
            P::Binding(mode, id, ident, sub) => {
                let mut n = self.node("Bind", p.span);
                n.set("name", J::s(ident.name.to_string()));
                n.set("hid", J::s(format!("{}", id.local_id.as_u32())));
                n.set("mode", J::s(format!("{:?}", mode)));
                let t = self.tr.pat_ty(p);
                let ti = self.ty_idx(t);
                n.set("t", ti);
                if let Some(s) = sub {
                    let sj = self.pat(s);
                    n.set("sub", sj);
                }
                n
            }
            P::Struct(ref qp, fields, rest) => {
                let mut n = self.node("PStruct", p.span);
                let res = self.tr.qpath_res(qp, p.hir_id);
                self.res_json(&mut n, res, p.hir_id);
                let fs: Vec<J> = fields
                    .iter()
                    .map(|f| {
                        let pj = self.pat(f.pat);
                        J::obj().with("f", J::s(f.ident.name.to_string())).with("p", pj)
                    })
                    .collect();
                n.set("fields", J::Arr(fs));
                n.set("rest", J::Bool(rest.is_some()));
                n
            }
            P::TupleStruct(ref qp, subs, ddpos) => {
                let mut n = self.node("PTS", p.span);
                let res = self.tr.qpath_res(qp, p.hir_id);
                self.res_json(&mut n, res, p.hir_id);
                let ss: Vec<J> = subs.iter().map(|s| self.pat(s)).collect();
                n.set("subs", J::Arr(ss));
                if let Some(d) = ddpos.as_opt_usize() {
                    n.set("dd", J::Int(d as i128));
                }
                n
            }
            P::Or(alts) => {
                let mut n = self.node("POr", p.span);
                let ss: Vec<J> = alts.iter().map(|s| self.pat(s)).collect();
                n.set("alts", J::Arr(ss));
                n
            }
            P::Tuple(subs, ddpos) => {
                let mut n = self.node("PTup", p.span);
                let ss: Vec<J> = subs.iter().map(|s| self.pat(s)).collect();
                n.set("subs", J::Arr(ss));
                if let Some(d) = ddpos.as_opt_usize() {
                    n.set("dd", J::Int(d as i128));
                }
                n
            }
            P::Box(s) | P::Deref(s) => {
                let mut n = self.node("PDeref", p.span);
                let sj = self.pat(s);
                n.set("p", sj);
                n
            }
            P::Ref(s, _, m) => {
                let mut n = self.node("PRef", p.span);
                let sj = self.pat(s);
                n.set("p", sj);
                n.set("mut", J::Bool(m.is_mut()));
                n
            }
            P::Expr(e) => self.pat_expr(e),
            P::Guard(s, g) => {
                let mut n = self.node("PGuard", p.span);
                let sj = self.pat(s);
                n.set("p", sj);
                let gj = self.expr(g);
                n.set("guard", gj);
                n
            }
            P::Range(lo, hi, end) => {
                let mut n = self.node("PRange", p.span);
                if let Some(l) = lo {
                    let lj = self.pat_expr(l);
                    n.set("lo", lj);
                }
                if let Some(h) = hi {
                    let hj = self.pat_expr(h);
                    n.set("hi", hj);
                }
                n.set("end", J::s(format!("{:?}", end)));
                n
            }
            P::Slice(before, mid, after) => {
                let mut n = self.node("PSlice", p.span);
                let b: Vec<J> = before.iter().map(|s| self.pat(s)).collect();
                let a: Vec<J> = after.iter().map(|s| self.pat(s)).collect();
                n.set("before", J::Arr(b));
                if let Some(m) = mid {
                    let mj = self.pat(m);
                    n.set("mid", mj);
                }
                n.set("after", J::Arr(a));
                n
            }
            P::Err(_) => self.node("PErr", p.span),
        }
    }

    fn pat_expr(&mut self, e: &'tcx hir::PatExpr<'tcx>) -> J {
        match e.kind {
            hir::PatExprKind::Lit { lit, negated } => {
                let mut n = self.node("PLit", e.span);
                self.lit_json(&mut n, &lit.node);
                if negated {
                    n.set("neg", J::Bool(true));
                }
                n
            }
            hir::PatExprKind::Path(ref qp) => {
                let mut n = self.node("PPath", e.span);
                let res = self.tr.qpath_res(qp, e.hir_id);
                self.res_json(&mut n, res, e.hir_id);
                n
            }
            _ => self.node("POther", e.span),
        }
    }

    fn lit_json(&mut self, n: &mut J, l: &rustc_ast::LitKind) {
        use rustc_ast::LitKind as L;
        match l {
            L::Str(s, _) => {
                n.set("lk", J::s("str"));
                n.set("v", J::s(s.to_string()));
            }
            L::ByteStr(b, _) | L::CStr(b, _) => {
                n.set("lk", J::s("bytes"));
                n.set("v", J::s(String::from_utf8_lossy(b.as_byte_str()).to_string()));
                n.set("hex", J::s(b.as_byte_str().iter().map(|x| format!("{:02x}", x)).collect::<String>()));
            }
            L::Byte(b) => {
                n.set("lk", J::s("byte"));
                n.set("v", J::Int(*b as i128));
            }
            L::Char(c) => {
                n.set("lk", J::s("char"));
                n.set("v", J::s(c.to_string()));
                n.set("cp", J::Int(*c as u32 as i128));
            }
            L::Int(v, _) => {
                n.set("lk", J::s("int"));
                n.set("v", J::Int(v.get() as i128));
            }
            L::Float(s, _) => {
                n.set("lk", J::s("float"));
                n.set("v", J::s(s.to_string()));
            }
            L::Bool(b) => {
                n.set("lk", J::s("bool"));
                n.set("v", J::Bool(*b));
            }
            L::Err(_) => {
                n.set("lk", J::s("err"));
            }
        }
    }

    fn block(&mut self, b: &'tcx hir::Block<'tcx>) -> J {
        let mut n = self.node("Block", b.span);
        let mut stmts = Vec::new();
        for s in b.stmts {
            match s.kind {
                hir::StmtKind::Let(l) => {
                    let mut sj = self.node("Let", s.span);
                    let pj = self.pat(l.pat);
                    sj.set("pat", pj);
                    if let Some(i) = l.init {
                        let ij = self.expr(i);
                        sj.set("init", ij);
                    }
                    if let Some(e) = l.els {
                        let ej = self.block(e);
                        sj.set("els", ej);
                    }
                    stmts.push(sj);
                }
                hir::StmtKind::Item(_) => {}
                hir::StmtKind::Expr(e) => {
                    let ej = self.expr(e);
                    stmts.push(J::obj().with("k", J::s("Expr")).with("e", ej));
                }
                hir::StmtKind::Semi(e) => {
                    let ej = self.expr(e);
                    stmts.push(J::obj().with("k", J::s("Semi")).with("e", ej));
                }
            }
        }
        n.set("stmts", J::Arr(stmts));
        if let Some(e) = b.expr {
            let ej = self.expr(e);
            n.set("e", ej);
        }
        n
    }

    fn exprs(&mut self, es: &'tcx [hir::Expr<'tcx>]) -> J {
        J::Arr(es.iter().map(|e| self.expr(e)).collect())
    }

    /// `for pat in iter body` re-folded from its desugaring, if the shape matches.
    fn try_for(&mut self, e: &'tcx hir::Expr<'tcx>) -> Option<J> {
        let hir::ExprKind::Match(head, arms, hir::MatchSource::ForLoopDesugar) = e.kind else { return None };
        let hir::ExprKind::Call(_, [iter_expr]) = head.kind else { return None };
        let [arm] = arms else { return None };
        let hir::ExprKind::Loop(blk, label, hir::LoopSource::ForLoop, _) = arm.body.kind else { return None };
        // loop { match Iterator::next(&mut iter) { None => break, Some(pat) => body } }
        let inner = if let Some(x) = blk.expr {
            x
        } else if let Some(s) = blk.stmts.first() {
            match s.kind {
                hir::StmtKind::Expr(x) | hir::StmtKind::Semi(x) => x,
                _ => return None,
            }
        } else {
            return None;
        };
        let hir::ExprKind::Match(_, inner_arms, hir::MatchSource::ForLoopDesugar) = inner.kind else { return None };
        let [_none_arm, some_arm] = inner_arms else { return None };
        let pat: &'tcx hir::Pat<'tcx> = match some_arm.pat.kind {
            hir::PatKind::TupleStruct(_, [pat], _) => pat,
            hir::PatKind::Struct(_, [f], _) => f.pat,
            _ => return None,
        };
        let mut n = self.node("For", e.span);
        let pj = self.pat(pat);
        n.set("pat", pj);
        let ij = self.expr(iter_expr);
        n.set("iter", ij);
        let bj = self.expr(some_arm.body);
        n.set("body", bj);
        if let Some(l) = label {
            n.set("label", J::s(l.ident.name.to_string()));
        }
        Some(n)
    }

    pub fn expr(&mut self, e: &'tcx hir::Expr<'tcx>) -> J {
        use hir::ExprKind as E;
        // transparent wrappers
        if let E::DropTemps(inner) = e.kind {
            return self.expr(inner);
        }
        if let E::Use(inner, _) = e.kind {
            return self.expr(inner);
        }
        if let Some(f) = self.try_for(e) {
            return f;
        }
        let id = self.next_id;
        self.next_id += 1;
        let t = self.tr.expr_ty_opt(e);
        let ta = self.tr.expr_ty_adjusted_opt(e);
        let mut n = match e.kind {
            E::Lit(l) => {
                let mut n = self.node("Lit", e.span);
                self.lit_json(&mut n, &l.node);
                n
            }
            E::Path(ref qp) => {
                let mut n = self.node("Path", e.span);
                let res = self.tr.qpath_res(qp, e.hir_id);
                self.res_json(&mut n, res, e.hir_id);
                n
            }
            E::Call(f, args) => {
                let mut n = self.node("Call", e.span);
                let fj = self.expr(f);
                // hoist callee def for convenience
                if let J::Obj(items) = &fj {
                    for (k, v) in items {
                        if *k == "def" || *k == "inst" || *k == "dk" {
                            n.set(k, v.clone());
                        }
                    }
                }
                n.set("f", fj);
                let aj = self.exprs(args);
                n.set("args", aj);
                n
            }
            E::MethodCall(seg, recv, args, _) => {
                let mut n = self.node("MCall", e.span);
                n.set("m", J::s(seg.ident.name.to_string()));
                if let Some(did) = self.tr.type_dependent_def_id(e.hir_id) {
                    n.set("def", J::s(path_of(self.tcx, did)));
                    let ga = self.tr.node_args(e.hir_id);
                    if let Some(i) = self.resolve_inst(did, ga) {
                        n.set("inst", J::s(i));
                    }
                    if !ga.is_empty() {
                        n.set("ga", J::s(ty::print::with_no_trimmed_paths!(format!("{:?}", ga))));
                    }
                }
                let rj = self.expr(recv);
                n.set("recv", rj);
                let aj = self.exprs(args);
                n.set("args", aj);
                n
            }
            E::Tup(es) => {
                let mut n = self.node("Tup", e.span);
                let aj = self.exprs(es);
                n.set("es", aj);
                n
            }
            E::Array(es) => {
                let mut n = self.node("Array", e.span);
                let aj = self.exprs(es);
                n.set("es", aj);
                n
            }
            E::Repeat(x, _) => {
                let mut n = self.node("Repeat", e.span);
                let xj = self.expr(x);
                n.set("e", xj);
                n
            }
            E::Binary(op, l, r) => {
                let mut n = self.node("Binary", e.span);
                n.set("op", J::s(format!("{:?}", op.node)));
                if let Some(did) = self.tr.type_dependent_def_id(e.hir_id) {
                    n.set("def", J::s(path_of(self.tcx, did)));
                }
                let lj = self.expr(l);
                let rj = self.expr(r);
                n.set("l", lj);
                n.set("r", rj);
                n
            }
            E::Unary(op, x) => {
                let mut n = self.node("Unary", e.span);
                n.set("op", J::s(format!("{:?}", op)));
                if let Some(did) = self.tr.type_dependent_def_id(e.hir_id) {
                    n.set("def", J::s(path_of(self.tcx, did)));
                }
                let xj = self.expr(x);
                n.set("e", xj);
                n
            }
            E::Cast(x, _) | E::Type(x, _) => {
                let mut n = self.node("Cast", e.span);
                let xj = self.expr(x);
                n.set("e", xj);
                n
            }
            E::Let(l) => {
                let mut n = self.node("LetCond", e.span);
                let pj = self.pat(l.pat);
                n.set("pat", pj);
                let ij = self.expr(l.init);
                n.set("e", ij);
                n
            }
            E::If(c, t, el) => {
                let mut n = self.node("If", e.span);
                let cj = self.expr(c);
                n.set("c", cj);
                let tj = self.expr(t);
                n.set("then", tj);
                if let Some(x) = el {
                    let xj = self.expr(x);
                    n.set("els", xj);
                }
                n
            }
            E::Loop(b, label, src, _) => {
                let mut n = self.node("Loop", e.span);
                n.set("src", J::s(src.name()));
                if let Some(l) = label {
                    n.set("label", J::s(l.ident.name.to_string()));
                }
                let bj = self.block(b);
                n.set("body", bj);
                n
            }
            E::Match(scrut, arms, src) => {
                if let hir::MatchSource::TryDesugar(_) = src {
                    // match Try::branch(x) { Continue(v) => v, Break(r) => return FromResidual::from_residual(r) }
                    let mut n = self.node("Try", e.span);
                    if let E::Call(_, [inner]) = scrut.kind {
                        let ij = self.expr(inner);
                        n.set("e", ij);
                    } else {
                        let ij = self.expr(scrut);
                        n.set("e", ij);
                    }
                    n
                } else {
                    let mut n = self.node("Match", e.span);
                    n.set("src", J::s(src.name()));
                    let sj = self.expr(scrut);
                    n.set("e", sj);
                    let mut aj = Vec::new();
                    for a in arms {
                        let mut an = self.node("Arm", a.span);
                        let pj = self.pat(a.pat);
                        an.set("pat", pj);
                        if let Some(g) = a.guard {
                            let gj = self.expr(g);
                            an.set("guard", gj);
                        }
                        let bj = self.expr(a.body);
                        an.set("body", bj);
                        aj.push(an);
                    }
                    n.set("arms", J::Arr(aj));
                    n
                }
            }
            E::Closure(c) => {
                let mut n = self.node("Closure", e.span);
                n.set("def", J::s(path_of(self.tcx, c.def_id.to_def_id())));
                let body = self.tcx.hir_body(c.body);
                let ps: Vec<J> = body.params.iter().map(|p| self.pat(p.pat)).collect();
                n.set("params", J::Arr(ps));
                let bj = self.expr(body.value);
                n.set("body", bj);
                n
            }
            E::Block(b, label) => {
                let mut n = self.block(b);
                if let Some(l) = label {
                    n.set("label", J::s(l.ident.name.to_string()));
                }
                n
            }
            E::Assign(l, r, _) => {
                let mut n = self.node("Assign", e.span);
                let lj = self.expr(l);
                let rj = self.expr(r);
                n.set("l", lj);
                n.set("r", rj);
                n
            }
            E::AssignOp(op, l, r) => {
                let mut n = self.node("AssignOp", e.span);
                n.set("op", J::s(format!("{:?}", op.node)));
                let lj = self.expr(l);
                let rj = self.expr(r);
                n.set("l", lj);
                n.set("r", rj);
                n
            }
            E::Field(base, ident) => {
                let mut n = self.node("Field", e.span);
                n.set("f", J::s(ident.name.to_string()));
                if let Some(bt) = self.tr.expr_ty_adjusted_opt(base) {
                    let mut bt = bt;
                    while let ty::Ref(_, inner, _) = bt.kind() {
                        bt = *inner;
                    }
                    if let ty::Adt(adt, _) = bt.kind() {
                        n.set("adt", J::s(path_of(self.tcx, adt.did())));
                    }
                }
                let bj = self.expr(base);
                n.set("e", bj);
                n
            }
            E::Index(base, idx, _) => {
                let mut n = self.node("Index", e.span);
                if let Some(did) = self.tr.type_dependent_def_id(e.hir_id) {
                    n.set("def", J::s(path_of(self.tcx, did)));
                }
                let bj = self.expr(base);
                let ij = self.expr(idx);
                n.set("e", bj);
                n.set("i", ij);
                n
            }
            E::AddrOf(_, m, x) => {
                let mut n = self.node("AddrOf", e.span);
                n.set("mut", J::Bool(m.is_mut()));
                let xj = self.expr(x);
                n.set("e", xj);
                n
            }
            E::Break(dest, x) => {
                let mut n = self.node("Break", e.span);
                if let Some(l) = dest.label {
                    n.set("label", J::s(l.ident.name.to_string()));
                }
                if let Some(x) = x {
                    let xj = self.expr(x);
                    n.set("e", xj);
                }
                n
            }
            E::Continue(dest) => {
                let mut n = self.node("Continue", e.span);
                if let Some(l) = dest.label {
                    n.set("label", J::s(l.ident.name.to_string()));
                }
                n
            }
            E::Ret(x) => {
                let mut n = self.node("Ret", e.span);
                if let Some(x) = x {
                    let xj = self.expr(x);
                    n.set("e", xj);
                }
                n
            }
            E::Struct(qp, fields, tail) => {
                let mut n = self.node("Struct", e.span);
                let res = self.tr.qpath_res(qp, e.hir_id);
                self.res_json(&mut n, res, e.hir_id);
                let fs: Vec<J> = fields
                    .iter()
                    .map(|f| {
                        let ej = self.expr(f.expr);
                        J::obj().with("f", J::s(f.ident.name.to_string())).with("e", ej)
                    })
                    .collect();
                n.set("fields", J::Arr(fs));
                if let hir::StructTailExpr::Base(b) = tail {
                    let bj = self.expr(b);
                    n.set("base", bj);
                }
                n
            }
            E::ConstBlock(_) => self.node("ConstBlock", e.span),
            E::Become(x) => {
                let mut n = self.node("Become", e.span);
                let xj = self.expr(x);
                n.set("e", xj);
                n
            }
            E::Yield(x, _) => {
                let mut n = self.node("Yield", e.span);
                let xj = self.expr(x);
                n.set("e", xj);
                n
            }
            E::InlineAsm(_) => self.node("InlineAsm", e.span),
            E::OffsetOf(..) => self.node("OffsetOf", e.span),
            E::UnsafeBinderCast(_, x, _) => {
                let mut n = self.node("UnsafeBinderCast", e.span);
                let xj = self.expr(x);
                n.set("e", xj);
                n
            }
            E::Err(_) => self.node("Err", e.span),
            E::DropTemps(_) | E::Use(..) => unreachable!(),
        };
        n.set("id", J::Int(id as i128));
        if let Some(t) = t {
            let ti = self.ty_idx(t);
            n.set("t", ti);
            if let Some(ta) = ta {
                if ta != t {
                    let tai = self.ty_idx(ta);
                    n.set("ta", tai);
                }
            }
        }
        n
    }
}

pub fn dump_owner<'tcx>(tcx: TyCtxt<'tcx>, sh: &mut Shared, ldid: LocalDefId) -> J {
    let did = ldid.to_def_id();
    let dk = tcx.def_kind(ldid);
    let tr = tcx.typeck(ldid);
    let body = tcx.hir_body_owned_by(ldid);
    let (spj, outer, _) = span_json(tcx, sh, tcx.def_span(ldid));
    let mut n = J::obj()
        .with("path", J::s(path_of(tcx, did)))
        .with("name", J::s(tcx.item_name(did).to_string()))
        .with("dk", J::s(defkind_str(dk)))
        .with("sp", spj);
    if let Some(o) = outer {
        n.set("x", J::s(o));
    }
    if matches!(dk, DefKind::Fn | DefKind::AssocFn) {
        n.set("vis", J::s(format!("{:?}", tcx.visibility(did))));
        let sig = tcx.fn_sig(did).instantiate_identity().skip_norm_wip().skip_binder();
        let ins: Vec<J> = sig.inputs().iter().map(|t| J::s(ty_str(*t))).collect();
        n.set("inputs", J::Arr(ins));
        n.set("output", J::s(ty_str(sig.output())));
        let g = tcx.generics_of(did);
        let gp: Vec<J> = g
            .own_params
            .iter()
            .map(|p| J::s(format!("{}:{}", p.name, p.kind.descr())))
            .collect();
        n.set("generics", J::Arr(gp));
    }
    if let Some(impl_did) = tcx.impl_of_assoc(did) {
        let self_ty = tcx.type_of(impl_did).instantiate_identity().skip_norm_wip();
        n.set("impl_self", J::s(ty_str(self_ty)));
        if let Some(tref) = tcx.impl_opt_trait_ref(impl_did) {
            let tref = tref.instantiate_identity().skip_norm_wip();
            n.set("impl_trait", J::s(path_of(tcx, tref.def_id)));
        }
    }
    if let Some(trait_did) = tcx.trait_of_assoc(did) {
        n.set("trait_item_of", J::s(path_of(tcx, trait_did)));
    }
    let mut cx = Cx { tcx, sh, tr, owner: ldid, next_id: 0 };
    let ps: Vec<J> = body.params.iter().map(|p| cx.pat(p.pat)).collect();
    n.set("params", J::Arr(ps));
    let bj = cx.expr(body.value);
    n.set("body", bj);
    n
}

pub fn dump_adts<'tcx>(tcx: TyCtxt<'tcx>, _sh: &mut Shared) -> J {
    let mut out = Vec::new();
    for id in tcx.hir_free_items() {
        let ldid = id.owner_id.def_id;
        let dk = tcx.def_kind(ldid);
        if !matches!(dk, DefKind::Struct | DefKind::Enum | DefKind::Union) {
            continue;
        }
        let did = ldid.to_def_id();
        let adt = tcx.adt_def(did);
        let g = tcx.generics_of(did);
        let gp: Vec<J> = g
            .own_params
            .iter()
            .map(|p| J::s(format!("{}:{}", p.name, p.kind.descr())))
            .collect();
        let mut vs = Vec::new();
        for (vi, v) in adt.variants().iter_enumerated() {
            let fs: Vec<J> = v
                .fields
                .iter()
                .map(|f| {
                    let fty = tcx.type_of(f.did).instantiate_identity().skip_norm_wip();
                    J::obj()
                        .with("name", J::s(f.name.to_string()))
                        .with("ty", J::s(ty_str(fty)))
                        .with("vis", J::s(format!("{:?}", f.vis)))
                })
                .collect();
            vs.push(
                J::obj()
                    .with("name", J::s(v.name.to_string()))
                    .with("idx", J::Int(vi.as_u32() as i128))
                    .with("fields", J::Arr(fs)),
            );
        }
        out.push(
            J::obj()
                .with("path", J::s(path_of(tcx, did)))
                .with("kind", J::s(defkind_str(dk)))
                .with("vis", J::s(format!("{:?}", tcx.visibility(did))))
                .with("generics", J::Arr(gp))
                .with("variants", J::Arr(vs)),
        );
    }
    J::Arr(out)
}

pub fn crate_attrs(tcx: TyCtxt<'_>) -> J {
    // Crate-level attributes, debug-printed (searched for `forbid(unsafe_code)` by the rules).
    let mut out = Vec::new();
    for a in tcx.hir_attrs(hir::CRATE_HIR_ID) {
        let s = format!("{:?}", a);
        out.push(J::s(s.chars().take(600).collect::<String>()));
    }
    J::Arr(out)
}
