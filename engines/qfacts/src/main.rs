//! qfacts: rustc_private driver that dumps compiler facts (typed HIR trees, MIR,
//! ADT layouts) of the local crate as JSON, one file per crate target.
//!
//! It contains no property logic; rules live in /verif/engines/qrules (Python).
//!
//! Usage (as RUSTC_WORKSPACE_WRAPPER): qfacts <rustc> <args...>
//! env QFACTS_OUT=<dir>  output directory (required for dumping)
//! env QFACTS_CRATES=a,b  crate names to dump (default: qmluic,qmluic_cli)
#![feature(rustc_private)]
#![allow(clippy::all)]

extern crate rustc_abi;
extern crate rustc_ast;
extern crate rustc_driver;
extern crate rustc_hir;
extern crate rustc_interface;
extern crate rustc_middle;
extern crate rustc_session;
extern crate rustc_span;

mod hirdump;
mod json;
mod mirdump;

use json::J;
use rustc_driver::{Callbacks, Compilation};
use rustc_hir::def::DefKind;
use rustc_interface::interface::Compiler;
use rustc_middle::ty::{self, TyCtxt};
use std::collections::HashMap;

/// String interner for file names and type strings.
#[derive(Default)]
pub struct Interner {
    map: HashMap<String, usize>,
    pub items: Vec<String>,
}

impl Interner {
    pub fn get(&mut self, s: String) -> usize {
        if let Some(&i) = self.map.get(&s) {
            return i;
        }
        let i = self.items.len();
        self.map.insert(s.clone(), i);
        self.items.push(s);
        i
    }
    pub fn to_json(&self) -> J {
        J::Arr(self.items.iter().map(|s| J::s(s.clone())).collect())
    }
}

pub struct Shared {
    pub files: Interner,
    pub tys: Interner,
}

pub fn path_of(tcx: TyCtxt<'_>, did: rustc_hir::def_id::DefId) -> String {
    ty::print::with_no_trimmed_paths!(tcx.def_path_str(did))
}

pub fn ty_str<'tcx>(t: ty::Ty<'tcx>) -> String {
    ty::print::with_no_trimmed_paths!(t.to_string())
}

/// [file_idx, line, col, end_line, end_col] of the call-site span, plus macro info.
pub fn span_json(tcx: TyCtxt<'_>, sh: &mut Shared, sp: rustc_span::Span) -> (J, Option<String>, Option<String>) {
    let mut outer: Option<String> = None;
    let mut inner: Option<String> = None;
    let mut cur = sp;
    let mut guard = 0;
    while cur.from_expansion() && guard < 64 {
        guard += 1;
        let ed = cur.ctxt().outer_expn_data();
        if let rustc_span::ExpnKind::Macro(_, name) = ed.kind {
            let n = name.to_string();
            if inner.is_none() {
                inner = Some(n.clone());
            }
            outer = Some(n);
        }
        cur = ed.call_site;
    }
    let sm = tcx.sess.source_map();
    let lo = sm.lookup_char_pos(cur.lo());
    let hi = sm.lookup_char_pos(cur.hi());
    let fname = match &lo.file.name {
        rustc_span::FileName::Real(r) => match r.local_path() {
            Some(p) => p.to_string_lossy().to_string(),
            None => format!("{:?}", lo.file.name),
        },
        other => format!("{:?}", other),
    };
    let fi = sh.files.get(fname);
    let j = J::Arr(vec![
        J::Int(fi as i128),
        J::Int(lo.line as i128),
        J::Int(lo.col.0 as i128 + 1),
        J::Int(hi.line as i128),
        J::Int(hi.col.0 as i128 + 1),
    ]);
    (j, outer, inner)
}

struct Cb;

impl Callbacks for Cb {
    fn after_analysis<'tcx>(&mut self, _c: &Compiler, tcx: TyCtxt<'tcx>) -> Compilation {
        let out_dir = match std::env::var("QFACTS_OUT") {
            Ok(d) => d,
            Err(_) => return Compilation::Continue,
        };
        let wanted = std::env::var("QFACTS_CRATES").unwrap_or_else(|_| "qmluic,qmluic_cli".to_string());
        let krate = tcx.crate_name(rustc_hir::def_id::LOCAL_CRATE).to_string();
        if !wanted.split(',').any(|w| w == krate) {
            return Compilation::Continue;
        }
        let kind = if tcx
            .crate_types()
            .iter()
            .any(|t| matches!(t, rustc_session::config::CrateType::Executable))
        {
            "bin"
        } else {
            "lib"
        };
        let is_test = tcx.sess.opts.test;
        let mut sh = Shared { files: Interner::default(), tys: Interner::default() };

        let mut fns: Vec<J> = Vec::new();
        let mut mirs: Vec<J> = Vec::new();
        for ldid in tcx.hir_body_owners() {
            let dk = tcx.def_kind(ldid);
            match dk {
                DefKind::Fn | DefKind::AssocFn | DefKind::Const { .. } | DefKind::Static { .. } | DefKind::AssocConst { .. } => {
                    fns.push(hirdump::dump_owner(tcx, &mut sh, ldid));
                }
                _ => {}
            }
            match dk {
                DefKind::Fn | DefKind::AssocFn | DefKind::Closure => {
                    mirs.push(mirdump::dump_body(tcx, &mut sh, ldid));
                }
                _ => {}
            }
        }
        let adts = hirdump::dump_adts(tcx, &mut sh);
        let attrs = hirdump::crate_attrs(tcx);

        let root = J::obj()
            .with("crate", J::s(krate.clone()))
            .with("kind", J::s(kind))
            .with("test", J::Bool(is_test))
            .with("crate_attrs", attrs)
            .with("fns", J::Arr(fns))
            .with("mir", J::Arr(mirs))
            .with("adts", adts)
            .with("files", sh.files.to_json())
            .with("tys", sh.tys.to_json());
        let mut s = String::with_capacity(1 << 24);
        root.write(&mut s);
        let name = format!("{}/{}-{}{}.json", out_dir, krate, kind, if is_test { "-test" } else { "" });
        let tmp = format!("{}.tmp{}", name, std::process::id());
        std::fs::write(&tmp, s).expect("write facts");
        std::fs::rename(&tmp, &name).expect("rename facts");
        Compilation::Continue
    }
}

fn main() {
    let mut args: Vec<String> = std::env::args().collect();
    // RUSTC_WORKSPACE_WRAPPER mode: argv[1] is the real rustc.
    if args.len() > 1 && (args[1].ends_with("rustc") || args[1].contains("/rustc")) {
        args.remove(1);
    }
    rustc_driver::run_compiler(&args, &mut Cb);
}
