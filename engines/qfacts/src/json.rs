//! Minimal JSON value + serializer (the driver has zero cargo dependencies).

#[derive(Clone, Debug)]
pub enum J {
    Null,
    Bool(bool),
    Int(i128),
    Float(f64),
    Str(String),
    Arr(Vec<J>),
    Obj(Vec<(&'static str, J)>),
}

impl J {
    pub fn s<S: Into<String>>(s: S) -> J {
        J::Str(s.into())
    }
    pub fn obj() -> J {
        J::Obj(Vec::new())
    }
    pub fn set(&mut self, k: &'static str, v: J) -> &mut J {
        if let J::Obj(items) = self {
            items.push((k, v));
        }
        self
    }
    pub fn with(mut self, k: &'static str, v: J) -> J {
        self.set(k, v);
        self
    }
    pub fn opt(v: Option<J>) -> J {
        v.unwrap_or(J::Null)
    }

    pub fn write(&self, out: &mut String) {
        match self {
            J::Null => out.push_str("null"),
            J::Bool(b) => out.push_str(if *b { "true" } else { "false" }),
            J::Int(i) => out.push_str(&i.to_string()),
            J::Float(f) => {
                if f.is_finite() {
                    out.push_str(&format!("{:?}", f));
                } else {
                    out.push_str(&format!("\"{}\"", f));
                }
            }
            J::Str(s) => write_str(s, out),
            J::Arr(a) => {
                out.push('[');
                for (i, x) in a.iter().enumerate() {
                    if i > 0 {
                        out.push(',');
                    }
                    x.write(out);
                }
                out.push(']');
            }
            J::Obj(o) => {
                out.push('{');
                let mut first = true;
                for (k, v) in o.iter() {
                    if matches!(v, J::Null) {
                        continue;
                    }
                    if !first {
                        out.push(',');
                    }
                    first = false;
                    write_str(k, out);
                    out.push(':');
                    v.write(out);
                }
                out.push('}');
            }
        }
    }
}

fn write_str(s: &str, out: &mut String) {
    out.push('"');
    for c in s.chars() {
        match c {
            '"' => out.push_str("\\\""),
            '\\' => out.push_str("\\\\"),
            '\n' => out.push_str("\\n"),
            '\r' => out.push_str("\\r"),
            '\t' => out.push_str("\\t"),
            c if (c as u32) < 0x20 || c == '\u{7f}' => out.push_str(&format!("\\u{:04x}", c as u32)),
            c if (c as u32) > 0xffff => {
                let v = c as u32 - 0x10000;
                out.push_str(&format!("\\u{:04x}\\u{:04x}", 0xd800 + (v >> 10), 0xdc00 + (v & 0x3ff)));
            }
            c => out.push(c),
        }
    }
    out.push('"');
}
