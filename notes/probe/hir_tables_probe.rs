#![feature(rustc_private)]
extern crate rustc_driver;
extern crate rustc_hir;
extern crate rustc_interface;
extern crate rustc_middle;
extern crate rustc_span;
extern crate rustc_session;

use rustc_driver::{Callbacks, Compilation};
use rustc_interface::interface::Compiler;
use rustc_middle::ty::TyCtxt;
use rustc_hir as hir;
use rustc_hir::intravisit::{self, Visitor};

struct V<'tcx> { tcx: TyCtxt<'tcx>, out: String, owner: String, tr: Option<&'tcx rustc_middle::ty::TypeckResults<'tcx>> }

impl<'tcx> V<'tcx> {
    fn snip(&self, sp: rustc_span::Span) -> String {
        self.tcx.sess.source_map().span_to_snippet(sp).unwrap_or_else(|_| "?".into()).split_whitespace().collect::<Vec<_>>().join(" ")
    }
    fn pat_desc(&self, p: &'tcx hir::Pat<'tcx>) -> String {
        match p.kind {
            hir::PatKind::Or(ps) => ps.iter().map(|q| self.pat_desc(q)).collect::<Vec<_>>().join(" || "),
            hir::PatKind::Expr(e) => match e.kind {
                hir::PatExprKind::Lit { lit, .. } => format!("LIT({:?})", lit.node),
                hir::PatExprKind::Path(ref qp) => { let res = self.tr.unwrap().qpath_res(qp, e.hir_id); format!("PATH({:?})", res.opt_def_id().map(|d| self.tcx.def_path_str(d))) }
                _ => format!("PEXPR({})", self.snip(e.span)),
            },
            hir::PatKind::Wild => "WILD".into(),
            hir::PatKind::Binding(_, _, id, _) => format!("BIND({})", id.name),
            hir::PatKind::TupleStruct(ref qp, sub, _) => { let res = self.tr.unwrap().qpath_res(qp, p.hir_id); format!("TS({:?}; {})", res.opt_def_id().map(|d| self.tcx.def_path_str(d)), sub.iter().map(|q| self.pat_desc(q)).collect::<Vec<_>>().join(", ")) }
            hir::PatKind::Ref(q, ..) => format!("&{}", self.pat_desc(q)),
            hir::PatKind::Tuple(sub, _) => format!("TUP({})", sub.iter().map(|q| self.pat_desc(q)).collect::<Vec<_>>().join(", ")),
            _ => format!("OTHER({})", self.snip(p.span)),
        }
    }
}

impl<'tcx> Visitor<'tcx> for V<'tcx> {
    fn visit_expr(&mut self, e: &'tcx hir::Expr<'tcx>) {
        if let hir::ExprKind::Match(scrut, arms, src) = e.kind {
            if matches!(src, hir::MatchSource::Normal) {
                self.out.push_str(&format!("MATCH in {} on `{}` at {:?}\n", self.owner, self.snip(scrut.span), e.span));
                for a in arms {
                    let body = match a.body.kind {
                        hir::ExprKind::Path(ref qp) => format!("PATH({:?})", self.tr.unwrap().qpath_res(qp, a.body.hir_id).opt_def_id().map(|d| self.tcx.def_path_str(d))),
                        hir::ExprKind::Lit(l) => format!("LIT({:?})", l.node),
                        _ => format!("EXPR({})", self.snip(a.body.span).chars().take(60).collect::<String>()),
                    };
                    self.out.push_str(&format!("  ARM {} {} => {}\n", self.pat_desc(a.pat), a.guard.map(|g| format!("if {}", self.snip(g.span))).unwrap_or_default(), body));
                }
            }
        }
        intravisit::walk_expr(self, e);
    }
}

struct Cb;
impl Callbacks for Cb {
    fn after_analysis<'tcx>(&mut self, _c: &Compiler, tcx: TyCtxt<'tcx>) -> Compilation {
        let krate = tcx.crate_name(rustc_hir::def_id::LOCAL_CRATE);
        if krate.as_str() != "qmluic" { return Compilation::Continue; }
        let kind = if tcx.crate_types().iter().any(|t| matches!(t, rustc_session::config::CrateType::Executable)) {"bin"} else {"lib"};
        let mut v = V { tcx, out: String::new(), owner: String::new(), tr: None };
        for ldid in tcx.hir_body_owners() {
            let path = tcx.def_path_str(ldid.to_def_id());
            if !(path.contains("ceval") || path.contains("from_node") || path.contains("unescape_char") || path.contains("pick_") || path.contains("emit_binary")) { continue; }
            v.owner = path;
            v.tr = Some(tcx.typeck(ldid));
            let body = tcx.hir_body_owned_by(ldid);
            v.visit_expr(body.value);
        }
        let p = std::env::var("PROBE_OUT").unwrap();
        std::fs::write(format!("{}/{}-{}.hir.txt", p, krate, kind), v.out).unwrap();
        Compilation::Continue
    }
}

fn main() {
    let mut args: Vec<String> = std::env::args().collect();
    args.remove(1);
    rustc_driver::run_compiler(&args, &mut Cb);
}
